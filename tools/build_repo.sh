#!/bin/bash
# Build /repo's current working tree out-of-tree with the verification hooks on.
# usage: build_repo.sh <variant: asan|tsan|plain> ; prints build dir
set -e
VARIANT=${1:-asan}
REPO=${VERIF_REPO:-/repo}
ROOT=$(cd "$(dirname "$0")/.." && pwd)
B=$ROOT/.build/$VARIANT
mkdir -p "$ROOT/.build"
exec 9>"$ROOT/.build/.lock-$VARIANT"
flock 9
case $VARIANT in
  asan) SAN="-fsanitize=address -fsanitize=null,bounds,object-size,return,unreachable,vla-bound -fno-omit-frame-pointer" ; OPT="-O1 -g";;
  tsan) SAN="-fsanitize=thread -fno-omit-frame-pointer" ; OPT="-O1 -g";;
  plain) SAN="" ; OPT="-O1 -g";;
  cov) SAN="-fsanitize=address -fno-omit-frame-pointer -fprofile-instr-generate -fcoverage-mapping" ; OPT="-O1 -g";;     # reach measurement only (tools/coverage.sh)
  *) echo "bad variant" >&2; exit 2;;
esac
export ASAN_OPTIONS=detect_leaks=0
export UBSAN_OPTIONS=halt_on_error=0:print_stacktrace=0
if [ ! -f "$B/build.ninja" ] || [ "$(cat $B/.verif_repo 2>/dev/null)" != "$REPO" ]; then
  rm -rf "$B"
  cmake -S "$REPO" -B "$B" -G Ninja -DBUILD_TESTING=OFF -DCMAKE_BUILD_TYPE=None \
    -DCMAKE_C_COMPILER=clang -DCMAKE_CXX_COMPILER=clang++ \
    -DCMAKE_C_FLAGS="$OPT $SAN -DNEOLITH_VERIF -w" -DCMAKE_CXX_FLAGS="$OPT $SAN -DNEOLITH_VERIF -w" \
    -DCMAKE_EXE_LINKER_FLAGS="$SAN" > "$B.cmake.log" 2>&1 || { cat "$B.cmake.log" >&2; exit 2; }
  echo "$REPO" > $B/.verif_repo
fi
cmake --build "$B" -j16 > "$B.build.log" 2>&1 || { tail -50 "$B.build.log" >&2; exit 2; }
echo "$B"
