#!/bin/bash
# usage: tools/seed_try.sh <patch> <PROP> [extra check args]  -- apply a seeded change to /repo, run the check, undo
P=$(realpath $1); PROP=$2; shift; shift
cd /repo || exit 2
git diff --quiet || { echo "/repo not clean"; exit 2; }
git apply "$P" || { echo "patch does not apply"; exit 2; }
cd /verif
cp evidence/$PROP.json /tmp/evidence-$PROP.bak 2>/dev/null
t0=$(date +%s)
./check $PROP "$@" > /tmp/seed_try.out 2>&1
rc=$?
t1=$(date +%s)
git -C /repo checkout -- .
cp /tmp/evidence-$PROP.bak evidence/$PROP.json 2>/dev/null
echo "$(basename $(dirname $P)) $PROP rc=$rc time=$((t1-t0))s violations=$(grep -c '^VIOLATION' /tmp/seed_try.out)"
grep "^VIOLATION" /tmp/seed_try.out | head -4 | cut -c1-330
tail -1 /tmp/seed_try.out | cut -c1-200
rm -f /verif/replays/${PROP}_*.json
