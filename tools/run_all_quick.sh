#!/bin/bash
# run every registered quick check once (refreshes evidence/*.json from the current tree)
cd "$(dirname "$0")/.."
rc=0
for id in $(python3 -c "import json; print(' '.join(c['property_id'] for c in json.load(open('MANIFEST.json'))['checks']))"); do
  t0=$(date +%s)
  out=$(./check $id --tier quick 2>&1); r=$?
  t1=$(date +%s)
  echo "$id rc=$r $((t1-t0))s $(echo "$out" | tail -1 | cut -c1-150)"
  echo "$out" | grep "^VIOLATION\|^KNOWN" | cut -c1-200
  [ $r -ne 0 ] && rc=1
done
exit $rc
