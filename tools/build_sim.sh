#!/bin/bash
# Build the world simulator (nsim) against the driver objects of the given variant.
set -e
VARIANT=${1:-asan}
ROOT=$(cd "$(dirname "$0")/.." && pwd)
REPO=${VERIF_REPO:-/repo}
B=$ROOT/.build/$VARIANT
exec 9>"$ROOT/.build/.lock-sim-$VARIANT"
flock 9
case $VARIANT in
  asan) SAN="-fsanitize=address -fsanitize=null,bounds,object-size,return,unreachable,vla-bound -fno-omit-frame-pointer";;
  tsan) SAN="-fsanitize=thread -fno-omit-frame-pointer";;
  plain) SAN="";;
  cov) SAN="-fsanitize=address -fno-omit-frame-pointer -fprofile-instr-generate -fcoverage-mapping -DSIM_COV";;
esac
INC="-I$B -I$REPO/src -I$REPO -I$REPO/lib -I$REPO/lib/misc -I$B/lib/lpc -I$B/lib/efuns -I$REPO/lib/efuns -I$REPO/lib/rc -I$REPO/lib/socket -I$ROOT/sim -DHAVE_CONFIG_H -D_GNU_SOURCE -DNEOLITH_VERIF"
WRAPS="time gettimeofday socket setsockopt bind getsockname getpeername listen ioctl fcntl accept recv send close read write eventfd epoll_create1 epoll_ctl epoll_wait isatty tcgetattr tcsetattr platform_timer_init platform_timer_start platform_timer_stop platform_timer_cleanup platform_timer_is_active console_worker_init console_worker_shutdown console_worker_destroy compile_file push_control_stack pop_control_stack log_message debug_message debug_message_with_src debug_perror_with_src fatal open open64 fopen fopen64 fdopen fileno stat lstat fstat access unlink remove rename link symlink mkdir rmdir opendir"
WRAPS="$WRAPS $(cat $ROOT/sim/extra_wraps.txt 2>/dev/null || true)"
WL=""
for w in $WRAPS; do WL="$WL -Wl,--wrap=$w"; done
OUT=$B/sim
mkdir -p $OUT
OBJS=""
for src in $ROOT/sim/*.cpp; do
  o=$OUT/$(basename $src .cpp).o
  # the simulator includes driver headers (struct layouts): rebuild when any header of the tree under test is newer
  if [ ! -f $o ] || [ $src -nt $o ] || [ $ROOT/sim/sim.h -nt $o ] || [ $B/config.h -nt $o ] || [ -n "$(find $REPO/src $REPO/lib -name '*.h' -newer $o -print -quit)" ]; then
    clang++ -std=c++17 -O1 -g $SAN $INC -w -c $src -o $o &
  fi
  OBJS="$OBJS $o"
done
wait
LIBS="$B/lib/lpc/liblpc.a $B/lib/efuns/libefuns.a $B/lib/socket/libsocket.a $B/lib/lpc/liblpc.a $B/lib/efuns/libefuns.a $B/lib/socket/libsocket.a $B/lib/misc/libmisc.a $B/lib/rc/librc.a $B/lib/async/libasync.a $B/lib/port/libport.a $B/lib/logger/liblogger.a"
clang++ $SAN -o $OUT/nsim $OBJS $B/src/CMakeFiles/stem.dir/*.o $LIBS $WL -lm -lcrypt -lpthread
echo $OUT/nsim
