import sys, random
sys.path.insert(0,'/verif')
from vlib import core
from vlib.props import c16
w=core.Worker(); w.start()
seen=set()
for i in range(int(sys.argv[1]) if len(sys.argv)>1 else 12):
    plan=c16.gen(random.Random(core.run_seed(1,'C16',i)),'quick',i)
    res=w.run(plan)
    for v in c16.check_base(plan,res):
        if v.cls in seen: continue
        seen.add(v.cls); print(i, v.cls, '|', v.detail[:260])
w.stop()
