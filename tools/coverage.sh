#!/bin/bash
# Reach measurement: run the quick tier of the given properties (default: all W-engine properties) against a build with
# clang source coverage and print, per driver source file, how much of it the checks executed.
# Not a registered check - it tells where the generators do not reach.  usage: tools/coverage.sh [PROP ...]
cd "$(dirname "$0")/.."
ROOT=$(pwd)
PROPS=${@:-C02 C04 C05 C06 C07 C08 C09 C10 C11 C12 C13 C14 C15 C16 C17 C18 C20}
OUT=$ROOT/.build/covdata; rm -rf $OUT; mkdir -p $OUT
export VERIF_VARIANT=cov
export LLVM_PROFILE_FILE="$OUT/p-%8m.profraw"
for p in $PROPS; do
  case $p in C05|C16|C18) runs=8;; C07) runs=30;; *) runs=400;; esac
  ./check $p --runs $runs > $OUT/$p.log 2>&1; echo "$p rc=$? $(tail -1 $OUT/$p.log | cut -c1-120)"
  git checkout -q -- evidence 2>/dev/null
done
llvm-profdata-14 merge -sparse $OUT/*.profraw -o $OUT/all.profdata
llvm-cov-14 report $ROOT/.build/cov/sim/nsim -instr-profile=$OUT/all.profdata $(ls /repo/src/*.c /repo/lib/lpc/*.c /repo/lib/lpc/program/*.c /repo/lib/efuns/*.c /repo/lib/async/*.c 2>/dev/null) 2>/dev/null > $OUT/report.txt
llvm-cov-14 report $ROOT/.build/cov/sim/nsim -instr-profile=$OUT/all.profdata -show-functions $(ls /repo/src/*.c /repo/lib/lpc/*.c /repo/lib/lpc/program/*.c /repo/lib/efuns/*.c 2>/dev/null) 2>/dev/null > $OUT/functions.txt
echo "report: $OUT/report.txt  functions: $OUT/functions.txt"
