#!/usr/bin/env python3
# regenerate MANIFEST.json from the table below (keeps it valid at all times)
import json, os, subprocess
ROOT = os.path.dirname(os.path.dirname(os.path.abspath(__file__)))
hooks_commits = subprocess.run(['git', '-C', '/repo', 'log', '--format=%h', '--grep=^verif:'], stdout=subprocess.PIPE, text=True).stdout.split()

NA = {
 'C01': 'pure function of (program, arguments): no schedule, clock, I/O or fault in the statement; not a deterministic-simulation target (DESIGN.md section 0)',
 'C03': 'pure input->output equivalence of compiler/interpreter; no schedule, clock, I/O or fault to simulate (DESIGN.md section 0)',
}
CHECKS = {
 'C09': dict(engine='W-loop', level='exploration', design='5/C09',
   text='seeded search over short driver lives (ticks, connects, partial input, disconnects anywhere, console lines, error bombs in every task kind, instruction-level injected errors, failing master error_handler) run against the real backend()/comm.c under a simulated kernel, clock and timer, with ASan/UBSan; oracles: driver alive, every failure reported, innocent heart beats keep running, survivors and a fresh connection served within a bounded number of cycles after faults stop. Sampling, not proof.',
   note='kernel/timer/console-worker are models (level-triggered epoll, explicit recv segmentation, scripted send results); Windows/poll back ends not covered',
   technique='deterministic simulation with fault injection (seeded event/fault plans, real backend loop, simulated kernel and clock)'),
}
CHECKS['C14'] = dict(engine='W-loop', level='exploration', design='5/C14',
   text='seeded search over write sequences (lengths 0..8191 through tell_object/write/printf/receive, bursts beyond the 4 KiB ring, from commands and call_outs) crossed with scripted send() results (full, partial k, EWOULDBLOCK, EINTR, EPIPE, closed windows, client close) against the real add_message/flush_message/process_io; oracle: the bytes accepted for each connection are an in-order concatenation of message prefixes, a tail is lost only when the ring was full at the end of that write or the connection had failed, no CR without its LF, ring drained after the window opens. Sampling, not proof.',
   note='send()/epoll are a model; exact byte accounting includes the driver-generated telnet negotiation and newline echo; ring capacity 4096 assumed from options.h',
   technique='deterministic simulation with fault injection (scripted send results, seeded write workloads, byte-exact stream oracle)')
CHECKS['C13'] = dict(engine='W-loop', level='exploration', design='5/C13',
   text='seeded search: the same logical client byte stream (text, CR LF/CR NUL, backspace/delete, IAC commands, sub-negotiations incl. oversized, bursts, hostile floods) is sent by 2-3 clients under different recv() segmentations (all at once, byte by byte, random cuts) to the real get_user_data/copy_chars/telnet_neg on telnet, ASCII and binary ports and the console; oracles: delivered command lines equal the lines of the logical item list (strict classes), are identical across segmentations (all classes but hostile), contain no negotiation bytes, input buffer indices stay in bounds, sanitizers clean. Sampling, not proof.',
   note='recv()/epoll are a model; strict expectations exclude inputs whose result the property leaves open (empty lines, lone CR, bare LF on telnet, bytes after IAC AYT/IP/BREAK/AO)',
   technique='deterministic simulation with fault injection (seeded recv segmentation of one logical stream, differential and model oracles)')
CHECKS['C10'] = dict(engine='W-loop', level='exploration', design='5/C10',
   text='seeded search over call_out/remove_call_out/find_call_out histories (by name, by handle, function-pointer form; issued at top level and from inside callbacks; delays around the 32-slot wheel; owners destructed; errors in callbacks) crossed with tick spacings of 1, 2, 3, 5-90 s and stalls with coalesced timer expiries, executed by the real call_out.c and backend tick path under a virtual clock; oracle: reference scheduler (exactly once, at the first tick at or after the due second and never before, time-left answers, removed/destructed never fire, errors isolate). Sampling, not proof.',
   note='reference clock is the driver clock as LPC time() reports it; the API cannot distinguish -1 seconds left from not found: such answers are accepted either way',
   technique='deterministic simulation with fault injection (virtual clock and timer, seeded call_out histories, reference scheduler oracle)')
CHECKS['C11'] = dict(engine='W-loop', level='exploration', design='5/C11',
   text='seeded search over heart-beat populations (1-8, sometimes 30-40 objects) and scripts of set_heart_beat(self/other, 0/1/n), destruct, clone-and-enable and error actions run inside heart_beat functions on chosen beats and between ticks, plus a class where the timer fires in the middle of a round, executed by the real call_heart_beat/set_heart_beat/error_handler; oracle: reference cadence model per enabled window (first beat within n ticks, exact for windows opened between ticks, then exactly every n ticks, at most one per tick, never after disable/destruct, only the failing object is switched off, heart_beats()/query_heart_beat agree). Sampling, not proof.',
   note='cadence is judged only over stretches of ticks that complete without error and without a mid-round timer expiry; phase within the first n ticks left open for windows opened during a round',
   technique='deterministic simulation with fault injection (plan-driven timer incl. mid-round expiry, seeded heart-beat scripts, reference cadence model)')
CHECKS['C12'] = dict(engine='W-loop', level='exploration', design='5/C12',
   text='seeded search over 1-12 clients with gapped connection slots (connect, disconnect some, connect more), 0-20 queued command lines each delivered in one or many recv() segments at seeded cycles, perpetual single-character-mode users, commands that call command() several times, users joining and leaving mid-run, run by the real backend loop and process_user_command/get_user_command; oracle per cycle from the service log: a user whose received bytes complete a command is served in that very cycle, exactly once, with the head of its FIFO; command() calls all execute. Sampling, not proof.',
   note='a cycle is one pass of the backend loop (= one epoll_wait of the simulated kernel); what is buffered is derived from the bytes recv() actually returned',
   technique='deterministic simulation with fault injection (seeded arrival patterns and disconnects, per-cycle fairness model)')
CHECKS['C05'] = dict(engine='W-sweep', level='fault_enumeration', design='5/C05',
   text='per scenario (a seeded frame nest started by a user command, a disconnect, a call_out or a heart beat: call_other, function pointers, efun callbacks, nested catch, applies made by efuns, loads and clones with failing create(), natural errors) a fault-free run counts the executed instructions and then one simulated run per instruction index injects a catchable LPC error there (all indices up to 400, sampled beyond) plus eval-cost exhaustion at sampled indices; oracles: driver-entry registers (value/control stack depth, error-context depth, command-giver save stack, limit flags) equal the fault-free ones, LPC-level frame check after every catch, the innermost catch yields exactly the injected message, and a fixed probe evaluation afterwards behaves as in the fault-free run. Fault points are enumerated per scenario; scenarios are sampled.',
   note='side effects made before the error are allowed; error sites are instruction boundaries of LPC code (errors raised in the middle of an efun are represented by the natural-error leaves only)',
   technique='deterministic simulation with fault injection (error injected at every executed instruction of seeded frame nests, fork-per-fault-point)')
CHECKS['C04'] = dict(engine='W-loop', level='exploration', design='5/C04',
   text='seeded search over limit configurations (evaluation cost, call depth, stack size, array/mapping/string/buffer sizes drawn small) crossed with spenders that are infinite by construction (every loop form, direct/mutual recursion, recursion through function pointers, efun callbacks, call_other, catch) and unbounded builders (operators and efuns that double strings, arrays, mappings, buffers), run as commands, heart beats, call_outs, input_to callbacks and create() with 0-3 catch levels around them; monitors at every instruction (call depth, stack height, size of the value on top of the stack) plus oracles: the run ends, the statement after an infinite spender or its enclosing catch never runs, every limit hit is reported, builder results respect the limits, the next task is served. Sampling, not proof.',
   note='set_eval_limit/reset_eval_cost excluded; the builder list samples the operator/efun surface (one known finding: sprintf is bounded by its 64 KiB buffer, not by MaxStringLength)',
   technique='deterministic simulation with fault injection (randomised limit configurations, limit exhaustion at arbitrary points of seeded task kinds, per-instruction invariant monitors)')
CHECKS['C19'] = dict(engine='T', level='exploration', design='5/C19',
   text='seeded search over thread schedules: the real lib/async (runtime, queue, worker, console worker) and lib/port (timer, sync) code runs on real threads that a seeded scheduler releases one at a time at every intercepted synchronisation or blocking call (mutex, condition variable incl. spurious wake-ups, eventfd, epoll, stdin, sleep, clock are modelled, timed waits use a virtual clock, no runnable thread and no deadline is a detected deadlock); scenarios: concurrent completion posts/wake-ups vs. the waiting backend, multi-producer queue under every overflow policy, worker create/stop/join/destroy at every point of its life, timer start/stop/cleanup, console worker with EOF and shutdown; oracles: every completion delivered exactly once with its own key and data, pending notification ends a wait, per-producer FIFO and conservation for the queue, stop/join/cleanup terminate within virtual-time bounds, no callback after stop returns; a second batch runs the same generator on a ThreadSanitizer build for the race clause. Sampling, not proof.',
   note='the poll and IOCP back ends are not built on Linux and not covered; the driver globals touched by the timer callback (heart_beat_flag) are not linked into this engine; TSan sees lib/async and lib/port only, the simulator annotates the sync objects it models',
   technique='deterministic simulation with fault injection (real threads serialised by a seeded scheduler at intercepted sync points, virtual clock, ThreadSanitizer batch)')
CHECKS['C16'] = dict(engine='W-sweep', level='fault_enumeration', design='5/C16',
   text='per scenario (a seeded set of savable values written as LPC source: int64 extremes, integral/tiny/huge floats, strings over escape-worthy bytes, nested arrays/mappings/classes, empty containers, shared sub-values, object references, static variables) the fault-free run checks save_variable/restore_variable and save_object/restore_object round trips with a deep LPC comparison; then one simulated run per crash point of a second save over an existing good save file (the simulated disk fails every mutating file call from call n on, all n: the surviving file must be the old one byte for byte or a complete new one, and must restore) and one run per damaged text (truncations and structural-character replacements spread over each save text and each value text) restored with restore_object/restore_variable, which must return or raise an LPC error with sanitizers clean. Crash points are enumerated per scenario; values and damage positions are sampled.',
   note='crash = process crash at a file-call boundary (every stdio flush is a visible call through fopencookie); power-loss reordering not modelled; strings restricted to 7-bit bytes (the driver treats strings as UTF-8)',
   technique='deterministic simulation with fault injection (simulated file layer with crash points at every mutating call, damaged stored text)')
CHECKS['C15'] = dict(engine='W-loop', level='exploration', design='5/C15',
   text='seeded search over file-efun call sequences (read/write/remove/rename/copy/link/list/stat/size/bytes/buffer/tail/save/restore/dump efuns, load/clone/find_object, #include, inherit) with path strings from an attack grammar while the master answers every valid_read/valid_write from a seeded script (deny, allow, rewrite to a legal or hostile path, junk, raise an error); the simulated file layer logs every libc file call made while an efun runs, and the oracle checks at that seam that no opened or modified path is absolute or has a .. component, that a file efun touches only paths the master approved for this very call (after the documented leading-slash strip; directory entries and the save temp file of an approved path count), and that a denied call touches nothing. Sampling, not proof.',
   note='the path alphabet is sampled, not enumerated; ed() is not driven; load_object/#include/inherit are checked for confinement only; an existence probe (stat) on a .. path before load_object rejects the name is observed and not counted as opening',
   technique='deterministic simulation with fault injection (scripted master answers incl. errors, hostile inputs, invariant checked at the simulated file seam)')
CHECKS['C20'] = dict(engine='W-loop', level='exploration', design='5/C20',
   text='seeded search over histories of object creation (clone, load, implicit load through call_other, inherit-triggered load, clone by the master with its euid dropped), seteuid (names, 0, own uid), export_uid and destruct performed by objects of different creators, interleaved with run-time changes of the master policy: creator_file answers (Root, Backbone, other names, same-as-loader, 0, array, raised error) and valid_seteuid answers (1, 0, array, string, raised error, apply missing); commands arrive over the simulated socket into the real driver. After every command getuid/geteuid of every live object (tagged objects, blueprints, master) is compared with a reference model that changes a uid only at creation by the creator_file rules or through export_uid from an object with euid onto one without, and an euid only through the object\'s own seteuid that the master was asked about and approved (or to 0); an object without euid (other than the master) must not reach creator_file or create() of anything. Sampling, not proof.',
   note='virtual objects are not driven; the uid for a non-string creator_file answer is the implementation-defined NONAME; bind()/function pointers evaluated in another object are not driven',
   technique='deterministic simulation with fault injection (scripted master policy incl. raised errors and missing apply, hostile call orders, reference model compared after every step)')
CHECKS['C18'] = dict(engine='W-sweep', level='fault_enumeration', design='5/C18',
   text='per seeded program layout (up to four programs: main, two inherited levels, a second object; functions placed in the .c files or in headers included at nesting depth 1-3 at the top, middle or end of a file or inside a function body; blank/comment/#define/#if padding, also enough lines to cross 32767 and 65535; statements spanning several lines; statements of more than 255 bytes of code; for/while/if nests; local, inherited, overridden (::), call_other calls; catch; function literals and anonymous functions evaluated later; statements that fail naturally) a fault-free run through the real backend, then one run per instruction k executed by the generated programs with an LPC error injected exactly at k (every k up to the cap). The file, line and trace handed to master::error_handler must be those of a statement that the generator\'s own abstract interpreter says can be executing between the last marker seen and the next; every outer trace frame must name its function, program, object and sit on the lines of its call statement; natural errors must be reported exactly at their statement. Sampling over layouts, enumeration over fault points.',
   note='programs loaded from saved binaries are not covered; an instruction between two markers may belong to either neighbouring statement (bracket oracle), exact only for natural errors; a loop/if statement spans header to closing brace',
   technique='deterministic simulation with fault injection (error injected at every executed instruction, oracle from an independent abstract interpreter of the generated layout)')
CHECKS['C08'] = dict(engine='W-loop', level='exploration', design='5/C08',
   text='seeded search over histories of load, clone, move, destruct, enable_commands, set_living_name, command, present/say and heart-beat operations on 3-12 objects (thorough: also ~300) and two users, issued from top level and re-entrantly from create/init/id/catch_tell/move_or_destruct/heart_beat/command hooks that move, clone and destruct themselves, their environment or siblings or raise errors, with failing variants (move into itself/own inventory, clone of a clone, missing file, master::valid_object veto) and LPC errors injected at seeded instructions. At every backend cycle and at walk points inside hooks the simulator walks the driver structures (obj_list, destruct list, name table, inventories, environments, sentences, living hash, connection slots) for: name <-> live object bijection, one inventory per object, forest, no destructed object reachable; after every command an LPC-visible dump (environment, all_inventory, find_object, objects, livings, users, held references) is checked for internal consistency, for references to destructed objects reading 0, for hooks never running in an object destructed in an earlier cycle, and - in hook-free histories - for equality with an abstract world. Sampling, not proof.',
   note='the order in which hooks fire is not modelled (hook histories are judged for consistency only); virtual objects and replace_program are not driven',
   technique='deterministic simulation with fault injection (re-entrant hook schedules, injected errors, structure invariants checked during the run, reference model for hook-free histories)')
CHECKS['C06'] = dict(engine='W-loop', level='exploration', design='5/C06',
   text='seeded search over value-plumbing scenarios executed as eight identical rounds in one driver life: a user object and two helper objects build arrays, mappings, strings, buffers, class instances, function pointers (plain, bound arguments, functional, anonymous), nested and self-referencing containers and cloned objects, keep them in variables, in each other, in other objects, in pending call_outs (by name and by function pointer) and input_to carry-over arguments, pass them through copying/sorting/filtering/mapping/printing/saving efuns, operators, foreach, catch/throw and erroring callbacks, share one value between more than 65535 holders, optionally with an LPC error injected at the same instruction of every round; each round ends by clearing, removing or firing the callbacks and destructing what it created. Oracle: live heap bytes (sanitizer allocator) must not grow round after round over rounds 5-8 and object/program counts must be back; values read back must be intact and identical in every round; AddressSanitizer reports use-after-free/double free. Sampling, not proof.',
   note='leaks that grow less than one allocation per round, or only on paths the op alphabet does not reach, are not seen; the driver statistics counters (arrays, malloced strings) drift on the unchanged tree while the heap stays level and are therefore reported as a probe only',
   technique='deterministic simulation with fault injection (conservation by slope over repeated rounds in one simulated driver life, injected LPC errors, sanitizer as use-after-free oracle)')
PENDING = 'check not built (designed in DESIGN.md section 5, status in section 11.7); not claimed'

def main():
    checks = []
    for pid in sorted(CHECKS):
        c = CHECKS[pid]
        checks.append({
            'property_id': pid,
            'quick_cmd': './check %s --tier quick' % pid,
            'thorough_cmd': './check %s --tier thorough' % pid,
            'evidence_file': 'evidence/%s.json' % pid,
            'replay_cmd_template': './check %s --replay {path}' % pid,
            'engine': c['engine'],
            'level_claimed': {'category': c['level'], 'text': c['text'], 'design_ref': c['design']},
            'level_note': c['note'],
            'technique': c['technique'],
        })
    na = []
    for i in range(1, 21):
        pid = 'C%02d' % i
        if pid in CHECKS: continue
        na.append({'property_id': pid, 'reason': NA.get(pid, PENDING)})
    m = {
        'version': 1,
        'setup_cmd': './setup.sh',
        'hooks': {'guard': 'NEOLITH_VERIF',
                  'enable': 'tools/build_repo.sh configures /repo out of tree with -DNEOLITH_VERIF in CMAKE_C_FLAGS/CMAKE_CXX_FLAGS (clang, ASan+UBSan)',
                  'baseline_off_cmd': 'cd /repo && cmake -G Ninja -B _build >/dev/null && cmake --build _build >/dev/null && ctest --test-dir _build -j8 --timeout 900',
                  'source_commits': hooks_commits, 'add_only': True},
        'engines': [
            {'name': 'T', 'path': 'tsim/tsim.cpp', 'serves_properties': ['C19'],
             'kind_free_text': 'thread simulator: real lib/async + lib/port code on real pthreads, exactly one runnable at a time, seeded choice at every intercepted pthread/eventfd/epoll/sleep/clock call, virtual time, deadlock detection; ASan and TSan variants'},
            {'name': 'W-loop', 'path': 'sim/nsim.cpp sim/kernel.cpp', 'serves_properties': sorted(p for p in CHECKS if CHECKS[p]['engine'].startswith('W')),
             'kind_free_text': 'whole driver (compiler, interpreter, efuns, backend loop, comm layer) in one process under a simulated kernel (sockets, epoll, eventfd, console), virtual clock and plan-driven timer; one plan = one forked child; seeded plans from the Python orchestrator (vlib/)'},
        ],
        'checks': checks,
        'not_applicable': na,
        'notes': 'deterministic simulation with fault injection; every check rebuilds /repo working tree (hooks on) and the simulator, then runs seeded plans on 16 workers; VERIF_SEED selects the seed family.',
    }
    json.dump(m, open(os.path.join(ROOT, 'MANIFEST.json'), 'w'), indent=1)

if __name__ == '__main__':
    main()
