#!/bin/bash
# Build the thread simulator (tsim) against lib/async + lib/port of the given variant.
set -e
VARIANT=${1:-asan}
ROOT=$(cd "$(dirname "$0")/.." && pwd)
REPO=${VERIF_REPO:-/repo}
B=$ROOT/.build/$VARIANT
exec 9>"$ROOT/.build/.lock-tsim-$VARIANT"
flock 9
case $VARIANT in
  asan) SAN="-fsanitize=address -fno-omit-frame-pointer";;
  tsan) SAN="-fsanitize=thread -fno-omit-frame-pointer";;
  plain) SAN="";;
esac
mkdir -p $B/sim
CSAN="$SAN"
# under TSan the simulator itself is NOT instrumented (it must add no happens-before edges and its own bookkeeping is
# serialised by construction); only lib/async and lib/port are, and the modelled sync objects are annotated
if [ "$VARIANT" = tsan ]; then CSAN="-DTSIM_TSAN"; fi
clang++ -std=c++17 -O1 -g $CSAN -I$B -I$REPO/lib -I$REPO -DHAVE_CONFIG_H -D_GNU_SOURCE -w -c $ROOT/tsim/tsim.cpp -o $B/sim/tsim.o
clang++ $SAN -o $B/sim/tsim $B/sim/tsim.o $B/lib/async/libasync.a $B/lib/port/libport.a -lpthread -ldl
echo $B/sim/tsim
