#!/bin/bash
# usage: tools/mutant.sh <patch> <PROP> [runs]   -- apply a breaking change to /repo, run the check, undo
P=$(realpath $1); PROP=$2; RUNS=${3:-0}
cd /repo || exit 2
git diff --quiet || { echo "/repo not clean"; exit 2; }
git apply "$P" || { echo "patch does not apply"; exit 2; }
cd /verif
if [ "$RUNS" != 0 ]; then ./check $PROP --runs $RUNS > /tmp/mutant.out 2>&1; else ./check $PROP > /tmp/mutant.out 2>&1; fi
rc=$?
git -C /repo checkout -- .
grep -c "^VIOLATION" /tmp/mutant.out | xargs echo "$(basename $P) $PROP rc=$rc violations="
grep "^VIOLATION" /tmp/mutant.out | head -3 | cut -c1-250
git -C /verif checkout -- evidence 2>/dev/null
exit 0
