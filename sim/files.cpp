// Simulated file layer (W engines): pass-through to the scratch mudlib with a log of every call (C15), simulated
// modification times taken from the virtual clock (C17), "the disk stops at mutating call n" crash points (C16) and
// read faults (short reads, EIO) on mudlib files (C02).  Link-time wraps only.
#include "sim.h"
#include <sys/stat.h>
#include <sys/types.h>
#include <dirent.h>
#include <fcntl.h>
#include <unistd.h>
#include <errno.h>
#include <stdarg.h>
#include <string.h>

extern "C" {
FILE *__real_fopen(const char *, const char *);
int __real_open(const char *, int, ...);
int __real_close(int);
ssize_t __real_read(int, void *, size_t);
ssize_t __real_write(int, const void *, size_t);
int __real_stat(const char *, struct stat *);
int __real_lstat(const char *, struct stat *);
int __real_fstat(int, struct stat *);
int __real_unlink(const char *);
int __real_remove(const char *);
int __real_rename(const char *, const char *);
int __real_link(const char *, const char *);
int __real_symlink(const char *, const char *);
int __real_mkdir(const char *, mode_t);
int __real_rmdir(const char *);
DIR *__real_opendir(const char *);
int __real_access(const char *, int);
FILE *__real_fdopen(int, const char *);
int __real_fileno(FILE *);
}

static bool active() { return S.fs_active; }
static std::map<int, std::string> fdpath;       // real fds opened through the layer
static std::map<FILE *, int> cookie_fd;
static std::map<std::string, time_t> mtimes;    // simulated modification times (path as given, normalised)
static long mut_calls = 0;                      // mutating calls since arming
static long stop_at = -1;                       // >=0: mutating call number stop_at and all later ones fail
static bool stop_once = false;                  // only call number stop_at fails (a transient error), later ones succeed
static bool stopped = false;
static long read_calls = 0;
static uint64_t frng = 0;
static long rt_short_read = -1, rt_eio_in = -1;   // set by the plan step "fsopt"
void files_set_read_faults(long short_read, long eio_in) { if (short_read >= -1) rt_short_read = short_read; rt_eio_in = eio_in; }

static std::string norm(const char *p) {
  std::string s = p ? p : "";
  while (s.size() > 1 && s.compare(0, 2, "./") == 0) s.erase(0, 2);
  return s;
}
static time_t vnow() { return S.base_time + (time_t)(S.vus / 1000000); }
static void touch(const std::string &p) { mtimes[p] = vnow(); if (S.fs_log) ev("mt %s %ld", pct_enc(p).c_str(), (long)mtimes[p]); }
void files_set_mtime(const std::string &p, time_t t) { mtimes[norm(p.c_str())] = t; if (S.fs_log) ev("mt %s %ld", pct_enc(norm(p.c_str())).c_str(), (long)t); }
static long torn_permille = -1;                 // >=0: the write that fails first still gets this share of its bytes onto the disk (a torn write)
void files_arm_stop(long n, bool once, long torn) { mut_calls = 0; stop_at = n; stopped = false; stop_once = once; torn_permille = torn; }
// the failing write call itself: part of its data reaches the file before the error (only the first failing call tears)
static void torn_write(int fd, const char *path, const void *buf, size_t n, bool was_stopped) {
  if (torn_permille < 0 || was_stopped || n == 0) return;
  size_t k = (size_t)((unsigned long long)n * (unsigned long long)torn_permille / 1000ULL);
  if (k >= n) k = n - 1;
  if (k) { ssize_t r = __real_write(fd, buf, k); (void)r; }
  ev("fs_torn %s kept=%zu of=%zu", path, k, n); S.stats["fs_torn_writes"]++;
}
long files_mut_calls() { return mut_calls; }
// several driver lives over one scratch directory (plan step "restart"): the simulated mtimes survive in a file
void files_save_state(const std::string &path) {
  std::string out;
  for (auto &kv : mtimes) out += std::to_string((long long)kv.second) + " " + kv.first + "\n";
  int fd = __real_open(path.c_str(), O_WRONLY | O_CREAT | O_TRUNC, 0644);
  if (fd >= 0) { size_t off = 0; while (off < out.size()) { ssize_t n = __real_write(fd, out.data() + off, out.size() - off); if (n <= 0) break; off += (size_t)n; } __real_close(fd); }
}
void files_load_state(const std::string &path) {
  int fd = __real_open(path.c_str(), O_RDONLY, 0);
  if (fd < 0) return;
  std::string in; char buf[4096]; ssize_t n;
  while ((n = __real_read(fd, buf, sizeof buf)) > 0) in.append(buf, (size_t)n);
  __real_close(fd);
  size_t i = 0;
  while (i < in.size()) {
    size_t j = in.find('\n', i); if (j == std::string::npos) j = in.size();
    std::string line = in.substr(i, j - i);
    size_t sp = line.find(' ');
    if (sp != std::string::npos) mtimes[line.substr(sp + 1)] = (time_t)atoll(line.substr(0, sp).c_str());
    i = j + 1;
  }
}
void files_reset() { rt_short_read = -1; rt_eio_in = -1; fdpath.clear(); cookie_fd.clear(); mtimes.clear(); mut_calls = 0; stop_at = -1; stopped = false; stop_once = false; torn_permille = -1; read_calls = 0; }

// returns true if this mutating call must fail (the disk has stopped)
static bool mutating(const char *op, const char *path) {
  long n = mut_calls++;
  if (stop_at >= 0 && (stop_once ? n == stop_at : n >= stop_at)) {
    if (!stopped) { stopped = true; ev("fs_stop at=%ld op=%s path=%s", n, op, path ? path : "-"); S.stats["fs_stops"]++; }
    errno = EIO;
    return true;
  }
  return false;
}
static void fslog(const char *op, const char *path, long ret) {
  if (!S.fs_log) return;
  ev("fs %s %s ret=%ld", op, path ? pct_enc(path).c_str() : "-", ret);
}
static void fslog2(const char *op, const char *a, const char *b, long ret) {
  if (!S.fs_log) return;
  ev("fs %s %s %s ret=%ld", op, pct_enc(a ? a : "").c_str(), pct_enc(b ? b : "").c_str(), ret);
}

// ------------------------------------------------------------------ fd level
static char *__real_getcwd_safe(char *b, size_t n) { return getcwd(b, n); }
// where did the kernel really open this?  A symbolic link inside the mudlib can lead out of it although every path string
// the driver uses looks confined.
static void check_real(const char *op, const char *path, int fd) {
  if (!S.fs_log || fd < 0) return;
  static std::string root;
  if (root.empty()) { char r[4096]; if (__real_getcwd_safe(r, sizeof r)) root = r; }
  char lnk[64], real[4096];
  snprintf(lnk, sizeof lnk, "/proc/self/fd/%d", fd);
  ssize_t n = readlink(lnk, real, sizeof real - 1);
  if (n <= 0 || root.empty()) return;
  real[n] = 0;
  if (strncmp(real, root.c_str(), root.size()) != 0 || (real[root.size()] != '/' && real[root.size()] != 0))
  {
    // the event text must not name the scratch directory (it carries the process id)
    std::string r2 = real;
    if (!S.root.empty() && r2.compare(0, S.root.size(), S.root) == 0) r2 = "<scratch>" + r2.substr(S.root.size());
    else r2 = "<outside the scratch directory>";
    ev("fs_escape %s %s real=%s", op, pct_enc(path ? path : "").c_str(), pct_enc(r2).c_str());
  }
}

extern "C" int __wrap_open(const char *path, int flags, ...) {
  mode_t mode = 0;
  if (flags & O_CREAT) { va_list ap; va_start(ap, flags); mode = (mode_t)va_arg(ap, int); va_end(ap); }
  if (!active()) return __real_open(path, flags, mode);
  bool w = (flags & (O_WRONLY | O_RDWR | O_CREAT | O_TRUNC | O_APPEND)) != 0;
  if (w && mutating("open", path)) { fslog("open_w", path, -1); return -1; }
  int fd = __real_open(path, flags, mode);
  fslog(w ? "open_w" : "open_r", path, fd);
  check_real(w ? "open_w" : "open_r", path, fd);
  if (fd >= 0) { fdpath[fd] = norm(path); if (w) touch(norm(path)); }
  return fd;
}
extern "C" int __wrap_open64(const char *path, int flags, ...) {
  mode_t mode = 0;
  if (flags & O_CREAT) { va_list ap; va_start(ap, flags); mode = (mode_t)va_arg(ap, int); va_end(ap); }
  return __wrap_open(path, flags, mode);
}
// called from kernel.cpp for real (non-simulated) fds
ssize_t files_read(int fd, void *buf, size_t n) {
  auto it = fdpath.find(fd);
  if (it == fdpath.end() || !active()) return __real_read(fd, buf, n);
  read_calls++;
  long eio_at = S.plan.optl("fs_read_eio_at", -1);
  if (eio_at >= 0 && read_calls == eio_at + 1) { S.stats["fs_read_eio"]++; ev("fs_fault read_eio %s", it->second.c_str()); errno = EIO; return -1; }
  if (rt_eio_in >= 0 && rt_eio_in-- == 0) { rt_eio_in = -1; S.stats["fs_read_eio"]++; ev("fs_fault read_eio %s", it->second.c_str()); errno = EIO; return -1; }
  long sr = rt_short_read >= 0 ? rt_short_read : S.plan.optl("fs_short_read", 0);
  if (sr && n > 1) {
    frng = frng * 6364136223846793005ULL + 1442695040888963407ULL + (uint64_t)sr;
    size_t k = 1 + (size_t)((frng >> 33) % (sr == 1 ? 7 : 4096));
    if (k < n) { n = k; S.stats["fs_short_reads"]++; }
  }
  return __real_read(fd, buf, n);
}
ssize_t files_write(int fd, const void *buf, size_t n) {
  auto it = fdpath.find(fd);
  if (it == fdpath.end() || !active()) return __real_write(fd, buf, n);
  bool was = stopped;
  if (mutating("write", it->second.c_str())) { int e = errno; torn_write(fd, it->second.c_str(), buf, n, was); errno = e; return -1; }
  touch(it->second);
  return __real_write(fd, buf, n);
}
bool files_close(int fd) {   // returns true if handled
  auto it = fdpath.find(fd);
  if (it == fdpath.end()) return false;
  fdpath.erase(it);
  return false;   // the real close is still done by the caller
}

// ------------------------------------------------------------------ stdio through cookies
struct Cookie { int fd; std::string path; bool w; };
static ssize_t ck_read(void *c, char *buf, size_t n) { Cookie *k = (Cookie *)c; return files_read(k->fd, buf, n); }
static ssize_t ck_write(void *c, const char *buf, size_t n) {
  Cookie *k = (Cookie *)c;
  bool was = stopped;
  if (mutating("write", k->path.c_str())) { torn_write(k->fd, k->path.c_str(), buf, n, was); return 0; }
  touch(k->path);
  ssize_t r = __real_write(k->fd, buf, n);
  return r < 0 ? 0 : r;
}
static int ck_seek(void *c, off64_t *off, int whence) { Cookie *k = (Cookie *)c; off64_t r = lseek64(k->fd, *off, whence); if (r < 0) return -1; *off = r; return 0; }
static int ck_close(void *c) {
  Cookie *k = (Cookie *)c;
  int rc = 0;
  if (k->w && mutating("close", k->path.c_str())) rc = -1;
  fdpath.erase(k->fd);
  for (auto it = cookie_fd.begin(); it != cookie_fd.end();) { if (it->second == k->fd) it = cookie_fd.erase(it); else ++it; }   // the simulator itself must not grow
  __real_close(k->fd);
  delete k;
  return rc;
}
static FILE *cookie_stream(int fd, const std::string &path, const char *mode, bool w) {
  Cookie *k = new Cookie{fd, path, w};
  cookie_io_functions_t io = {ck_read, ck_write, ck_seek, ck_close};
  FILE *f = fopencookie(k, mode, io);
  if (!f) { delete k; __real_close(fd); return NULL; }
  cookie_fd[f] = fd;
  return f;
}
extern "C" FILE *__wrap_fopen(const char *path, const char *mode) {
  if (!active()) return __real_fopen(path, mode);
  int flags; bool w = true;
  if (mode[0] == 'r') { flags = strchr(mode, '+') ? O_RDWR : O_RDONLY; w = strchr(mode, '+') != NULL; }
  else if (mode[0] == 'w') flags = (strchr(mode, '+') ? O_RDWR : O_WRONLY) | O_CREAT | O_TRUNC;
  else flags = (strchr(mode, '+') ? O_RDWR : O_WRONLY) | O_CREAT | O_APPEND;
  if (w && mutating("fopen", path)) { fslog("fopen_w", path, -1); return NULL; }
  int fd = __real_open(path, flags, 0644);
  fslog(w ? "fopen_w" : "fopen_r", path, fd);
  check_real(w ? "fopen_w" : "fopen_r", path, fd);
  if (fd < 0) return NULL;
  fdpath[fd] = norm(path);
  if (w) touch(norm(path));
  return cookie_stream(fd, norm(path), mode, w);
}
extern "C" FILE *__wrap_fopen64(const char *path, const char *mode) { return __wrap_fopen(path, mode); }
extern "C" FILE *__wrap_fdopen(int fd, const char *mode) {
  auto it = fdpath.find(fd);
  if (it == fdpath.end() || !active()) return __real_fdopen(fd, mode);
  return cookie_stream(fd, it->second, mode, mode[0] != 'r' || strchr(mode, '+'));
}
extern "C" int __wrap_fileno(FILE *f) {
  auto it = cookie_fd.find(f);
  if (it != cookie_fd.end()) return it->second;
  return __real_fileno(f);
}
void files_forget_stream(FILE *f) { cookie_fd.erase(f); }

// ------------------------------------------------------------------ metadata
static void fix_mtime(const std::string &p, struct stat *st) {
  if (!S_ISREG(st->st_mode)) return;
  auto it = mtimes.find(p);
  time_t t = it == mtimes.end() ? (time_t)1000000000 - 100000 : it->second;   // files nobody touched are older than the first boot
  st->st_mtime = t; st->st_mtim.tv_nsec = 0; st->st_ctime = t; st->st_atime = t;
}
extern "C" int __wrap_stat(const char *path, struct stat *st) {
  int r = __real_stat(path, st);
  if (!active()) return r;
  fslog("stat", path, r);
  if (r == 0) fix_mtime(norm(path), st);
  return r;
}
extern "C" int __wrap_lstat(const char *path, struct stat *st) {
  int r = __real_lstat(path, st);
  if (!active()) return r;
  fslog("lstat", path, r);
  if (r == 0) fix_mtime(norm(path), st);
  return r;
}
extern "C" int __wrap_fstat(int fd, struct stat *st) {
  int r = __real_fstat(fd, st);
  if (!active()) return r;
  auto it = fdpath.find(fd);
  if (r == 0 && it != fdpath.end()) fix_mtime(it->second, st);
  return r;
}
extern "C" int __wrap_access(const char *path, int m) { int r = __real_access(path, m); if (active()) fslog("access", path, r); return r; }
extern "C" int __wrap_unlink(const char *path) {
  if (!active()) return __real_unlink(path);
  if (mutating("unlink", path)) { fslog("unlink", path, -1); return -1; }
  int r = __real_unlink(path); fslog("unlink", path, r); if (r == 0) mtimes.erase(norm(path)); return r;
}
extern "C" int __wrap_remove(const char *path) {
  if (!active()) return __real_remove(path);
  if (mutating("remove", path)) { fslog("remove", path, -1); return -1; }
  int r = __real_remove(path); fslog("remove", path, r); if (r == 0) mtimes.erase(norm(path)); return r;
}
extern "C" int __wrap_rename(const char *a, const char *b) {
  if (!active()) return __real_rename(a, b);
  if (mutating("rename", b)) { fslog2("rename", a, b, -1); return -1; }
  int r = __real_rename(a, b); fslog2("rename", a, b, r);
  if (r == 0) { auto it = mtimes.find(norm(a)); time_t t = it == mtimes.end() ? vnow() : it->second; mtimes.erase(norm(a)); mtimes[norm(b)] = t; }
  return r;
}
extern "C" int __wrap_link(const char *a, const char *b) {
  if (!active()) return __real_link(a, b);
  if (mutating("link", b)) { fslog2("link", a, b, -1); return -1; }
  int r = __real_link(a, b); fslog2("link", a, b, r); if (r == 0) touch(norm(b)); return r;
}
extern "C" int __wrap_symlink(const char *a, const char *b) {
  if (!active()) return __real_symlink(a, b);
  if (mutating("symlink", b)) { fslog2("symlink", a, b, -1); return -1; }
  int r = __real_symlink(a, b); fslog2("symlink", a, b, r); return r;
}
extern "C" int __wrap_mkdir(const char *p, mode_t m) {
  if (!active()) return __real_mkdir(p, m);
  if (mutating("mkdir", p)) { fslog("mkdir", p, -1); return -1; }
  int r = __real_mkdir(p, m); fslog("mkdir", p, r); return r;
}
extern "C" int __wrap_rmdir(const char *p) {
  if (!active()) return __real_rmdir(p);
  if (mutating("rmdir", p)) { fslog("rmdir", p, -1); return -1; }
  int r = __real_rmdir(p); fslog("rmdir", p, r); return r;
}
extern "C" DIR *__wrap_opendir(const char *p) { DIR *d = __real_opendir(p); if (active()) fslog("opendir", p, d ? 0 : -1); return d; }
