// nsim: world simulator for neolith (W engines).  One plan = one forked child = one execution.
//   nsim run <planfile>     execute one plan, event log on stdout
//   nsim serve              read plans from stdin (terminated by a line "."), run each in a forked child
#include "sim.h"
#include <sys/personality.h>
#include <sys/wait.h>
#include <sys/stat.h>
#include <sys/types.h>
#include <dirent.h>
#include <signal.h>
#include <unistd.h>
#include <fcntl.h>
#include <locale.h>
#include <stdarg.h>
#include <string.h>
#include <errno.h>

Sim S;

extern "C" {
extern void (*verif_instr_hook)(int);
int verif_command_giver_depth(void);
extern char *last_verb;
}

#ifdef SIM_COV
extern "C" int __llvm_profile_write_file(void);
#define COV_FLUSH() __llvm_profile_write_file()     // children leave through _exit(): write the counters first
#else
#define COV_FLUSH() ((void)0)
#endif

// ------------------------------------------------------------------ sanitizer defaults
extern "C" __attribute__((used)) const char *__asan_default_options() {
  return "detect_leaks=0:exitcode=77:abort_on_error=0:halt_on_error=1:detect_stack_use_after_return=0:allocator_may_return_null=1:handle_segv=1:print_stacktrace=1";
}
extern "C" __attribute__((used)) const char *__ubsan_default_options() {
  return "halt_on_error=0:print_stacktrace=1:exitcode=77";
}

// ------------------------------------------------------------------ encoding helpers
std::string pct_enc(const std::string &s) {
  static const char *hx = "0123456789ABCDEF";
  std::string r;
  for (unsigned char c : s) {
    if (c > 0x20 && c < 0x7f && c != '%') r += (char)c;
    else { r += '%'; r += hx[c >> 4]; r += hx[c & 15]; }
  }
  if (r.empty()) r = "%";  // a lone % encodes the empty string
  return r;
}
static int hv(int c) { if (c >= '0' && c <= '9') return c - '0'; if (c >= 'A' && c <= 'F') return c - 'A' + 10; if (c >= 'a' && c <= 'f') return c - 'a' + 10; return 0; }
std::string pct_dec(const std::string &s) {
  std::string r;
  if (s == "%") return r;
  for (size_t i = 0; i < s.size(); i++) {
    if (s[i] == '%' && i + 2 < s.size()) { r += (char)(hv(s[i + 1]) * 16 + hv(s[i + 2])); i += 2; }
    else r += s[i];
  }
  return r;
}
std::string hex_enc(const void *p, size_t n) {
  static const char *hx = "0123456789abcdef";
  std::string r; r.reserve(n * 2 + 1);
  const unsigned char *b = (const unsigned char *)p;
  for (size_t i = 0; i < n; i++) { r += hx[b[i] >> 4]; r += hx[b[i] & 15]; }
  if (r.empty()) r = "-";
  return r;
}

// ------------------------------------------------------------------ event log
static std::string evbuf;
static int out_fd = 1;
extern "C" ssize_t __real_write(int, const void *, size_t);
extern "C" ssize_t __real_read(int, void *, size_t);
static size_t ev_total = 0;
void ev_flush() {
  size_t off = 0;
  ev_total += evbuf.size();
  if (ev_total > (size_t)48 << 20) { static const char m[] = "E 0 0 HANG eventlog\n"; __real_write(out_fd, m, sizeof m - 1); _exit(75); }
  while (off < evbuf.size()) {
    ssize_t n = __real_write(out_fd, evbuf.data() + off, evbuf.size() - off);
    if (n <= 0) { if (errno == EINTR) continue; break; }
    off += (size_t)n;
  }
  evbuf.clear();
}
void ev(const char *fmt, ...) {
  char head[64];
  snprintf(head, sizeof head, "E %ld %lld ", S.cycle, (long long)S.vus);
  evbuf += head;
  va_list ap; va_start(ap, fmt);
  char small[512];
  va_list ap2; va_copy(ap2, ap);
  int n = vsnprintf(small, sizeof small, fmt, ap);
  if (n < (int)sizeof small) evbuf.append(small, n > 0 ? n : 0);
  else { std::string big((size_t)n + 1, '\0'); vsnprintf(&big[0], big.size(), fmt, ap2); big.resize(n); evbuf += big; }
  va_end(ap2); va_end(ap);
  evbuf += '\n';
  if (evbuf.size() > (1 << 16)) ev_flush();
}
void violation(const char *oracle, const char *fmt, ...) {
  char msg[2048];
  va_list ap; va_start(ap, fmt); vsnprintf(msg, sizeof msg, fmt, ap); va_end(ap);
  ev("V %s %s", oracle, msg);
  S.stats["violations"]++;
}
extern "C" void __sanitizer_set_death_callback(void (*)(void));
static void on_death() { ev("sanitizer_death"); ev_flush(); }
// last-resort hang detector: a run that normally takes milliseconds is cut after wall_s real seconds
static void on_alarm(int) { static const char m[] = "E 0 0 HANG wallclock\n"; ev_flush(); __real_write(out_fd, m, sizeof m - 1); _exit(76); }

// ------------------------------------------------------------------ driver log capture
extern "C" int __real_debug_message(const char *fmt, ...);
static void sim_walk_now();
static void sim_memstat();
extern "C" int __wrap_debug_message(const char *fmt, ...) {
  va_list ap, ap2; va_start(ap, fmt); va_copy(ap2, ap);
  int need = vsnprintf(nullptr, 0, fmt, ap); va_end(ap);
  std::string store((size_t)(need > 0 ? need : 0) + 1, '\0');     // records (WDUMP of a large world) can exceed any fixed buffer
  vsnprintf(&store[0], store.size(), fmt, ap2); va_end(ap2);
  char *msg = &store[0];
  if (msg[0] == '@' && msg[1] == 'R' && msg[2] == ' ') {
    ev("R %s", msg + 3); S.stats["rec"]++;
    // a deterministic bound on what one run may report (an evaluation that never ends but spends its time in error reports)
    if (S.max_rec > 0 && ++S.rec_total > S.max_rec) { ev("HANG records"); ev_flush(); _exit(75); }
    if (!strncmp(msg + 3, "WALK", 4)) sim_walk_now();   // structure walk requested from LPC (possibly in the middle of a hook)
    if (!strncmp(msg + 3, "MEMSTAT", 7)) sim_memstat();  // C06: driver allocation counters right now
    return 0;
  }
  for (char *p = msg; *p; p++) if (*p == '\n' || *p == '\r') *p = ' ';
  ev("D %s", msg);
  if (S.max_rec > 0 && ++S.rec_total > S.max_rec) { ev("HANG records"); ev_flush(); _exit(75); }
  return 0;
}
// the driver's console log (error traces): kept for the first lines of a run only - a run that raises hundreds of thousands
// of errors must reach its instruction budget, not the wall clock
extern "C" int __real_log_message(const char *file, const char *fmt, ...);
extern "C" int __wrap_log_message(const char *file, const char *fmt, ...) {
  static long n = 0;
  if (!file && ++n > 3000) return 0;
  char msg[8192];
  va_list ap; va_start(ap, fmt); vsnprintf(msg, sizeof msg, fmt, ap); va_end(ap);
  return __real_log_message(file, "%s", msg);
}
extern "C" int __wrap_debug_message_with_src(const char *type, const char *func, const char *src, int line, const char *fmt, ...) {
  char msg[8192];
  (void)src; (void)line;
  va_list ap; va_start(ap, fmt); vsnprintf(msg, sizeof msg, fmt, ap); va_end(ap);
  for (char *p = msg; *p; p++) if (*p == '\n' || *p == '\r') *p = ' ';
  ev("D [%s %s] %s", type, func, msg);
  if (S.max_rec > 0 && ++S.rec_total > S.max_rec) { ev("HANG records"); ev_flush(); _exit(75); }
  return 0;
}
extern "C" int __wrap_debug_perror_with_src(const char *func, const char *src, int line, const char *what, const char *file) {
  (void)src; (void)line;
  ev("D [perror %s] %s %s errno=%d", func, what ? what : "", file ? file : "", errno);
  return 0;
}
extern "C" void __wrap_fatal(char *fmt, ...) {
  char msg[4096];
  va_list ap; va_start(ap, fmt); vsnprintf(msg, sizeof msg, fmt, ap); va_end(ap);
  for (char *p = msg; *p; p++) if (*p == '\n' || *p == '\r') *p = ' ';
  ev("FATAL %s", msg);
  ev_flush();
  _exit(70);
}

// ------------------------------------------------------------------ instruction hook
static std::string fault_only_prefix;   // opt fault_only_prefix: inject only while a program with this name prefix executes
static bool prog_exempt(program_t *p) {
  if (!p || !p->name) return false;
  const char *n = p->name;
  if (!fault_only_prefix.empty()) return strncmp(n, fault_only_prefix.c_str(), fault_only_prefix.size()) != 0;
  if (!strcmp(n, "simul_efun.c") || !strcmp(n, "/simul_efun.c")) return true;
  return false;
}
static long master_exempt = 0;
// ---- C04 monitors: evaluated at every instruction
static long c04_monitor = 0;
static long c04_reported = 0;
static void c04_report(const char *what, long have, long limit) {
  if (c04_reported++ > 20) return;
  ev("V C04.%s have=%ld limit=%ld prog=%s", what, have, limit, current_prog && current_prog->name ? current_prog->name : "?");
}
extern "C" {
#include "lpc/buffer.h"
}
static void c04_check() {
  long depth = csp - control_stack + 1;
  if (depth > CONFIG_INT(__MAX_CALL_DEPTH__)) c04_report("depth", depth, CONFIG_INT(__MAX_CALL_DEPTH__));
  if (sp >= end_of_stack + 5) c04_report("stack", sp - start_of_stack, end_of_stack - start_of_stack);
  if (sp >= start_of_stack) {
    svalue_t *v = sp;
    switch (v->type) {
    case T_STRING: {
      long n = (long)SVALUE_STRLEN(v);
      if (n > CONFIG_INT(__MAX_STRING_LENGTH__)) c04_report("size.string", n, CONFIG_INT(__MAX_STRING_LENGTH__));
      break; }
    case T_ARRAY:
      if (v->u.arr && (long)v->u.arr->size > CONFIG_INT(__MAX_ARRAY_SIZE__)) c04_report("size.array", v->u.arr->size, CONFIG_INT(__MAX_ARRAY_SIZE__));
      break;
    case T_MAPPING:
      if (v->u.map && (long)v->u.map->count > CONFIG_INT(__MAX_MAPPING_SIZE__)) c04_report("size.mapping", v->u.map->count, CONFIG_INT(__MAX_MAPPING_SIZE__));
      break;
    case T_BUFFER:
      if (v->u.buf && (long)v->u.buf->size > CONFIG_INT(__MAX_BUFFER_SIZE__)) c04_report("size.buffer", v->u.buf->size, CONFIG_INT(__MAX_BUFFER_SIZE__));
      break;
    default: break;
    }
  }
}
// one evaluation = one span in which the control stack is never empty.  Its first instruction runs in control_stack[0] with
// a budget the backend has just reset; everything executed until the next such instruction belongs to it.  It may use the
// configured cost once, plus one refill for every "Too long evaluation" the interpreter raises in it (the refill is what lets
// the master's error handler report that error; handlers that fail in turn can raise it again).  A budget that rises in
// the middle of an evaluation without that error having been raised does not extend what the evaluation may use.
static void c04_evaluation_length() {
  static int64_t prev_cost = 0; static long n = 0, allowed = 0;
  if (eval_cost >= prev_cost) {
    // (the callback of input_to()/get_char() starts one frame up, with the full budget)
    if (csp == control_stack || (csp == control_stack + 1 && eval_cost == CONFIG_INT(__MAX_EVAL_COST__) - 1)) { n = 0; allowed = CONFIG_INT(__MAX_EVAL_COST__); }
    else if (get_error_state(ES_MAX_EVAL_COST)) { allowed += CONFIG_INT(__MAX_EVAL_COST__); S.stats["c04_limit_refills"]++; }
    else { S.stats["c04_budget_rose_mid_evaluation"]++; if (getenv("C04_DEBUG_RISE")) ev("rise depth=%ld prev=%ld now=%ld prog=%s es=%d", (long)(csp - control_stack), (long)prev_cost, (long)eval_cost, current_prog && current_prog->name ? current_prog->name : "?", get_error_state(~0)); }
  }
  n++; prev_cost = eval_cost;
  if (n > allowed + 1000) { c04_reported = 0; c04_report("evaluation", n, allowed); ev("HANG evaluation"); ev_flush(); _exit(75); }
}
static svalue_t *stackroom_saved = nullptr;
// the shortage belongs to the evaluation it was injected into: when the driver starts the next one (first control frame
// pushed on an empty control stack) the stack has its real size again
static void stackroom_restore() { if (stackroom_saved) { end_of_stack = stackroom_saved; stackroom_saved = nullptr; } }
struct program_s;
extern "C" program_t *__real_compile_file(int fd, const char *name, const char *pre_text);
extern "C" program_t *__wrap_compile_file(int fd, const char *name, const char *pre_text) {
  if (S.compile_room >= 0 && S.compile_skip-- == 0) {
    long room = S.compile_room; S.compile_room = -1;
    S.faults_fired++;
    ev("fault_fired instr=%ld prog=%s kind=compileroom:%ld", S.instr_total, name ? name : "?", room);
    if (!stackroom_saved) stackroom_saved = end_of_stack;
    if (sp + room < end_of_stack) end_of_stack = sp + room;
  }
  return __real_compile_file(fd, name, pre_text);
}
extern "C" void __real_pop_control_stack(void);
extern "C" void __wrap_pop_control_stack(void) {
  __real_pop_control_stack();
  if (csp < control_stack) stackroom_restore();       // the evaluation is over (returned, or unwound by error recovery)
}
extern "C" void __real_push_control_stack(int frkind);
extern "C" void __wrap_push_control_stack(int frkind) {
  if (csp < control_stack) stackroom_restore();
  __real_push_control_stack(frkind);
}
static void instr_hook(int instruction) {
  (void)instruction;
  S.instr_total++;
  S.vns_frac += S.instr_cost_ns;
  if (S.vns_frac >= 1000) { S.vus += S.vns_frac / 1000; S.vns_frac %= 1000; }
  if (S.instr_total > S.max_instr) { ev("HANG instructions"); ev_flush(); _exit(75); }
  if (S.elig_on && !prog_exempt(current_prog)) S.elig_total++;
  if (c04_monitor) { c04_check(); c04_evaluation_length(); }
  if (S.timer_countdown >= 0 && S.timer_countdown-- == 0) {
    S.timer_countdown = -1;
    S.vus += S.timer_dt;
    ev("timer_mid_evaluation instr=%ld", S.instr_total);
    S.stats["timer_mid_evaluation"]++;
    sim_fire_timer();
  }
  if (S.fault_countdown >= 0) {
    if (prog_exempt(current_prog)) return;
    if (master_exempt && current_object == master_ob) return;
    if (S.fault_countdown-- == 0) {
      S.fault_countdown = -1;
      S.faults_fired++;
      ev("fault_fired instr=%ld prog=%s kind=%s", S.instr_total, current_prog && current_prog->name ? current_prog->name : "?", S.fault_kind.c_str());
      if (S.fault_kind == "evalcost") { eval_cost = 1; return; }
      if (!S.fault_kind.compare(0, 10, "stackroom:")) {
        // from here on the value stack has only this many free slots, as if the evaluation had started that much deeper:
        // the next push beyond them raises the driver's own "Stack overflow" at whatever site makes it.  Undone at the
        // next cycle boundary.
        long room = atol(S.fault_kind.c_str() + 10);
        if (!stackroom_saved) stackroom_saved = end_of_stack;
        if (sp + room < end_of_stack) end_of_stack = sp + room;
        return;
      }
      error("*verif injected fault\n");
    }
  }
}

// ------------------------------------------------------------------ driver-entry state (observed, judged by the oracle in Python)
struct EntryState {
  long sp_off, csp_off; int co, cg, ci, po, cp; int ct; int cgd; int ecd; int es; int chb; int lv;
  bool operator==(const EntryState &o) const { return !memcmp(this, &o, sizeof *this); }
};
static bool have_entry = false;
static bool have_entry_any() { return true; }
static EntryState entry_prev;
static svalue_t *sp0; static control_stack_t *csp0;
static int obstate(object_t *o) { return o ? 1 : 0; }  // never dereferenced: the driver may legitimately hold stale pointers here
static EntryState snapshot() {
  EntryState e; memset(&e, 0, sizeof e);
  e.sp_off = sp - sp0; e.csp_off = csp - csp0;
  e.co = obstate(current_object); e.cg = obstate(command_giver); e.ci = obstate(current_interactive); e.po = obstate(previous_ob);
  e.cp = current_prog ? 1 : 0;
  e.ct = caller_type; e.cgd = verif_command_giver_depth();
  e.es = get_error_state(~0);
  error_context_t tmp;
  int d = save_context(&tmp);
  if (d) { pop_context(&tmp); if (e.es) set_error_state(e.es); }
  e.ecd = d;
  e.chb = obstate(current_heart_beat);
  e.lv = last_verb ? 1 : 0;       // the verb of the command being parsed: only set while an action runs
  return e;
}

// ------------------------------------------------------------------ C08: structure walker over the driver's object tables (opt c08_walk)
static long c08_walk_on = 0;
static long c08_reported = 0;
static void c08_v(const char *what, const char *fmt, ...) {
  if (c08_reported++ > 30) return;
  char buf[400]; va_list ap; va_start(ap, fmt); vsnprintf(buf, sizeof buf, fmt, ap); va_end(ap);
  ev("V C08.%s %s", what, buf);
}
extern "C" object_t **hashed_living;
static void c08_walk() {
  std::set<object_t *> live, dead;
  std::set<std::string> names;
  long n = 0;
  for (object_t *o = obj_list; o; o = o->next_all) {
    if (++n > 200000) { c08_v("objlist-cycle", "obj_list does not end"); return; }
    if (!live.insert(o).second) { c08_v("objlist-cycle", "object /%s twice in obj_list", o->name); return; }
    if (o->flags & O_DESTRUCTED) c08_v("destructed-in-objlist", "/%s is destructed but still in obj_list", o->name);
    if (!o->name) { c08_v("noname", "object without name"); continue; }
    if (!names.insert(o->name).second) c08_v("duplicate-name", "two live objects carry the name /%s", o->name);
    if (lookup_object_hash(o->name) != o) c08_v("lookup-mismatch", "looking up /%s does not yield the live object carrying that name", o->name);
    if (!o->prog) c08_v("noprog", "/%s has no program", o->name);
  }
  n = 0;
  for (object_t *o = obj_list_destruct; o; o = o->next_all) {
    if (++n > 200000) { c08_v("destlist-cycle", "obj_list_destruct does not end"); return; }
    dead.insert(o);
    if (!(o->flags & O_DESTRUCTED)) c08_v("live-in-destruct-list", "/%s is in obj_list_destruct without the destructed flag", o->name);
    if (live.count(o)) c08_v("both-lists", "/%s is in both object lists", o->name);
    if (o->super) c08_v("destructed-has-env", "destructed /%s still has an environment", o->name);
    if (o->contains) c08_v("destructed-has-inv", "destructed /%s still has contents", o->name);
    if (o->living_name) c08_v("destructed-living", "destructed /%s still has a living name", o->name);
    if (o->interactive) c08_v("destructed-interactive", "destructed /%s still has a connection", o->name);
    if (o->name && lookup_object_hash(o->name) == o) c08_v("destructed-found", "destructed /%s is still found by name", o->name);
  }
  // inventories: a forest that agrees with super
  std::map<object_t *, int> seen_in;
  for (object_t *o : live) {
    long k = 0;
    for (object_t *c = o->contains; c; c = c->next_inv) {
      if (++k > 200000) { c08_v("inventory-cycle", "inventory chain of /%s does not end", o->name); break; }
      if (!live.count(c)) { c08_v("inventory-dead", "inventory of /%s lists an object that is not live (%s)", o->name, (c->flags & O_DESTRUCTED) ? "destructed" : "unknown"); break; }
      if (c->super != o) c08_v("inventory-super", "/%s is in the inventory of /%s but its environment is %s%s", c->name, o->name, c->super ? "/" : "", c->super ? c->super->name : "none");
      if (++seen_in[c] > 1) c08_v("two-inventories", "/%s is listed in more than one inventory slot", c->name);
    }
  }
  for (object_t *o : live) {
    if (o->super) {
      if (!live.count(o->super)) { c08_v("env-dead", "environment of /%s is not a live object", o->name); continue; }
      if (!seen_in.count(o)) c08_v("env-not-listing", "/%s has environment /%s which does not list it", o->name, o->super->name);
      long k = 0;
      for (object_t *u = o->super; u; u = u->super) {
        if (u == o || ++k > 100000) { c08_v("env-cycle", "/%s is (indirectly) inside itself", o->name); break; }
        if (!live.count(u)) break;
      }
    } else if (seen_in.count(o)) c08_v("listed-without-env", "/%s is listed in an inventory but has no environment", o->name);
    // sentences (add_action): the defining object must be live
    long k = 0;
    for (sentence_t *st = o->sent; st; st = st->next) {
      if (++k > 100000) { c08_v("sentence-cycle", "sentence chain of /%s does not end", o->name); break; }
      if (st->ob && !live.count(st->ob)) { c08_v("sentence-dead", "/%s carries a command defined by an object that is not live", o->name); break; }
    }
    if (o->interactive && o->interactive->ob != o) c08_v("interactive-mismatch", "/%s has a connection that belongs to another object", o->name);
  }
  // living names
  int hs = CONFIG_INT(__LIVING_HASH_TABLE_SIZE__);
  for (int i = 0; hashed_living && i < hs; i++) {
    long k = 0;
    for (object_t *o = hashed_living[i]; o; o = o->next_hashed_living) {
      if (++k > 100000) { c08_v("living-cycle", "living hash chain does not end"); break; }
      if (!live.count(o)) { c08_v("living-dead", "living hash lists an object that is not live"); break; }
      if (!o->living_name) c08_v("living-noname", "/%s is in the living hash without a living name", o->name);
    }
  }
  for (int i = 0; all_users && i < max_users; i++) {
    interactive_t *ip = all_users[i];
    if (!ip) continue;
    if (!ip->ob || !live.count(ip->ob)) { if (!(ip->iflags & NET_DEAD)) c08_v("user-dead", "connection slot %d belongs to an object that is not live", i); }
    else if (ip->ob->interactive != ip) c08_v("user-mismatch", "connection slot %d and /%s do not point at each other", i, ip->ob->name);
  }
  S.stats["c08_walks"]++;
  S.stats["c08_objects_walked"] += (long)live.size();
}

static void sim_walk_now() { if (c08_walk_on) c08_walk(); }
extern "C" size_t __sanitizer_get_current_allocated_bytes();
extern "C" { extern int num_arrays; extern size_t total_array_size; extern int num_mappings; extern int total_mapping_nodes; extern int tot_alloc_sentence; }
static void sim_memstat() {
  long nobj = 0, ndest = 0;
  for (object_t *o = obj_list; o; o = o->next_all) nobj++;
  for (object_t *o = obj_list_destruct; o; o = o->next_all) ndest++;
  if (evbuf.capacity() < (1 << 18)) evbuf.reserve(1 << 18);
  ev("mem arrays=%d arrsz=%zu maps=%d nodes=%d strs=%d strbytes=%zu astr=%d abytes=%zu objs=%zu progs=%zu sent=%d live=%ld dlist=%ld heap=%zu",
     num_arrays, total_array_size, num_mappings, total_mapping_nodes, num_distinct_strings, bytes_distinct_strings, allocd_strings, allocd_bytes,
     tot_alloc_object, total_num_prog_blocks, tot_alloc_sentence, nobj, ndest, __sanitizer_get_current_allocated_bytes());
}
void dump_users(const char *when);
static long dump_users_every = 0;
void invariants_at_cycle() {
  stackroom_restore();
  if (c08_walk_on && have_entry_any()) c08_walk();
  if (dump_users_every && have_entry) dump_users("cycle");
  if (!have_entry) { sp0 = sp; csp0 = csp; }
  EntryState e = snapshot();
  if (!have_entry || !(e == entry_prev))
    ev("entry sp=%ld csp=%ld cgd=%d ecd=%d es=%d co=%d cg=%d ci=%d po=%d cp=%d chb=%d lv=%d", e.sp_off, e.csp_off, e.cgd, e.ecd, e.es, e.co, e.cg, e.ci, e.po, e.cp, e.chb, e.lv);
  entry_prev = e; have_entry = true;
}

// ------------------------------------------------------------------ user table dump (observed state for C12/C13/C14 oracles)
int kernel_conn_of_fd(int fd);
void kernel_dump_conns();
void dump_users(const char *when) {
  for (int i = 0; all_users && i < max_users; i++) {
    interactive_t *ip = all_users[i];
    if (!ip) continue;
    std::string ring;
    for (int k = 0; k < ip->message_length && k < MESSAGE_BUF_SIZE; k++) ring += ip->message_buf[(ip->message_consumer + k) % MESSAGE_BUF_SIZE];
    ev("user when=%s slot=%d conn=%d outlen=%d text_start=%ld text_end=%ld iflags=%x ring=%s", when, i, kernel_conn_of_fd(ip->fd),
       ip->message_length, (long)ip->text_start, (long)ip->text_end, ip->iflags, hex_enc(ring.data(), ring.size()).c_str());
  }
}

// ------------------------------------------------------------------ plan parsing
static std::vector<std::string> toks(const std::string &line) {
  std::vector<std::string> r; std::string cur;
  for (char c : line) { if (c == ' ' || c == '\t') { if (!cur.empty()) { r.push_back(cur); cur.clear(); } } else cur += c; }
  if (!cur.empty()) r.push_back(cur);
  return r;
}
static bool parse_line(const std::string &line, Plan &p) {
  auto t = toks(line);
  if (t.empty() || t[0][0] == '#') return true;
  if (t[0] == "cfg" && t.size() >= 3) { p.cfg.push_back({t[1], pct_dec(t[2])}); return true; }
  if (t[0] == "file" && t.size() >= 3) { p.files.push_back({pct_dec(t[1]), pct_dec(t[2])}); return true; }
  if (t[0] == "opt" && t.size() >= 3) { p.opt[t[1]] = pct_dec(t[2]); return true; }
  if (t[0] == "step" || t[0] == "&step") {
    Step s; s.same_cycle = t[0][0] == '&';
    if (t.size() < 2) return false;
    s.op = t[1];
    for (size_t i = 2; i < t.size(); i++) s.a.push_back(pct_dec(t[i]));
    s.raw = line;
    p.steps.push_back(s);
    return true;
  }
  return false;
}
bool parse_plan(FILE *in, Plan &p, std::string &err) {
  char *line = NULL; size_t cap = 0; ssize_t n;
  bool got = false;
  while ((n = getline(&line, &cap, in)) >= 0) {
    while (n > 0 && (line[n - 1] == '\n' || line[n - 1] == '\r')) line[--n] = 0;
    if (!strcmp(line, ".")) { free(line); return true; }
    got = true;
    if (!parse_line(line, p)) { err = std::string("bad plan line: ") + line; }
  }
  free(line);
  return got;
}

// ------------------------------------------------------------------ scratch mudlib
static void write_file_raw(const std::string &path, const std::string &data) {
  std::string dir = path.substr(0, path.rfind('/'));
  std::string acc;
  for (size_t i = 1; i <= dir.size(); i++) if (i == dir.size() || dir[i] == '/') { acc = dir.substr(0, i); mkdir(acc.c_str(), 0755); }
  int fd = open(path.c_str(), O_WRONLY | O_CREAT | O_TRUNC, 0644);
  if (fd < 0) { fprintf(stderr, "nsim: cannot write %s: %s\n", path.c_str(), strerror(errno)); _exit(3); }
  size_t off = 0;
  while (off < data.size()) { ssize_t k = __real_write(fd, data.data() + off, data.size() - off); if (k <= 0) break; off += (size_t)k; }
  close(fd);
}
static std::string read_file_raw(const std::string &path) {
  std::string r; FILE *f = fopen(path.c_str(), "rb");
  if (!f) return r;
  char buf[65536]; size_t n;
  while ((n = fread(buf, 1, sizeof buf, f)) > 0) r.append(buf, n);
  fclose(f);
  return r;
}
static void copy_tree(const std::string &src, const std::string &dst) {
  mkdir(dst.c_str(), 0755);
  DIR *d = opendir(src.c_str());
  if (!d) return;
  struct dirent *e;
  while ((e = readdir(d))) {
    if (e->d_name[0] == '.') continue;
    std::string s = src + "/" + e->d_name, t = dst + "/" + e->d_name;
    struct stat st;
    if (stat(s.c_str(), &st)) continue;
    if (S_ISDIR(st.st_mode)) copy_tree(s, t); else write_file_raw(t, read_file_raw(s));
  }
  closedir(d);
}
static void rm_tree(const std::string &p) {
  DIR *d = opendir(p.c_str());
  if (d) {
    struct dirent *e;
    while ((e = readdir(d))) {
      if (!strcmp(e->d_name, ".") || !strcmp(e->d_name, "..")) continue;
      std::string s = p + "/" + e->d_name;
      struct stat st;
      if (lstat(s.c_str(), &st)) continue;
      if (S_ISDIR(st.st_mode)) rm_tree(s); else unlink(s.c_str());
    }
    closedir(d);
  }
  rmdir(p.c_str());
}

static std::string g_mudlib_src;
static std::string scratch_base() {
  const char *t = getenv("NSIM_TMP");
  if (!t) t = getenv("TMPDIR");
  if (!t) t = "/tmp";
  return t;
}

// ------------------------------------------------------------------ boot (mirror of src/main.c) and run
static int g_root_pid = 0;   // pid that names the scratch directory (the run child; lives are its children)
int sim_main_run(const Plan &plan, int life, bool last_life, long gap_s) {
  S = Sim();
  S.plan = plan;
  S.instr_cost_ns = plan.optl("instr_cost_ns", 100);
  S.max_instr = plan.optl("max_instr", 50000000);
  S.max_rec = plan.optl("max_rec", 0);
  S.max_cycles = plan.optl("max_cycles", 200000);
  S.console_mode = plan.optl("console", 0) != 0;
  S.stdin_tty = plan.optl("tty", 1) != 0;
  master_exempt = plan.optl("fault_exempt_master", 0);
  fault_only_prefix = plan.opt.count("fault_only_prefix") ? plan.opt.at("fault_only_prefix") : "";
  S.elig_on = !fault_only_prefix.empty();
  dump_users_every = plan.optl("dump_users", 0);
  c04_monitor = plan.optl("c04_monitor", 0); c04_reported = 0;
  c08_walk_on = plan.optl("c08_walk", 0); c08_reported = 0;
  kernel_reset();
  __sanitizer_set_death_callback(on_death);
  // hang detector: CPU time of this process (independent of how loaded the machine is), with a generous wall-clock backstop
  signal(SIGALRM, on_alarm);
  signal(SIGPROF, on_alarm);
  {
    struct itimerval it; memset(&it, 0, sizeof it);
    it.it_value.tv_sec = plan.optl("wall_s", 10);
    setitimer(ITIMER_PROF, &it, NULL);
  }
  alarm((unsigned)plan.optl("wall_s", 10) * 8);

  char dirbuf[256];
  snprintf(dirbuf, sizeof dirbuf, "%s/nsim-%08d", scratch_base().c_str(), g_root_pid ? g_root_pid : (int)getpid());
  S.root = dirbuf;
  // the mudlib sits four levels below the private scratch root: a path that escapes it by a few ".." (a symbolic link
  // leading out, C15) still lands inside this run's own directory and is removed with it
  std::string lib = S.root + "/o1/o2/o3/lib";
  if (life == 0) {
    rm_tree(S.root);
    mkdir(S.root.c_str(), 0755);
    mkdir((S.root + "/o1").c_str(), 0755); mkdir((S.root + "/o1/o2").c_str(), 0755); mkdir((S.root + "/o1/o2/o3").c_str(), 0755);
    copy_tree(g_mudlib_src, lib);
    for (auto &f : plan.files) write_file_raw(lib + "/" + f.first, f.second);
  } else {
    // a later life of the same world: only files survive; the clock goes on after the restart gap
    std::string c = read_file_raw(S.root + "/.clock");
    S.base_time = (time_t)atoll(c.c_str()) + gap_s;
    ev("life %d base_time=%ld", life, (long)S.base_time);
  }
  // the driver only ever sees relative paths, so the scratch location cannot influence a run
  if (chdir(S.root.c_str())) { ev("boot_fail chdir_root"); ev_flush(); return 3; }
  std::string conf = "MudlibDir o1/o2/o3/lib\nMasterFile /master.c\nSimulEfunFile /simul_efun.c\n";
  bool has_port = false;
  for (auto &c : plan.cfg) { conf += c.first + " " + c.second + "\n"; if (c.first == "Port") has_port = true; }
  if (!has_port && !S.console_mode) conf += "Port 4000:telnet\n";
  std::string conf_path = S.root + "/nsim.conf";
  write_file_raw(conf_path, conf);

  setlocale(LC_ALL, "C.UTF-8");
  init_stem((int)plan.optl("debug_level", 0), (unsigned long)plan.optl("trace_flags", 0), "nsim.conf");
  MAIN_OPTION(console_mode) = S.console_mode;
  if (plan.opt.count("timer_flags")) MAIN_OPTION(timer_flags) = (unsigned)plan.optl("timer_flags", 7);
  init_config(MAIN_OPTION(config_file));
  debug_set_log_with_date(0);
  if (-1 == chdir(CONFIG_STR(__MUD_LIB_DIR__))) { ev("boot_fail chdir"); ev_flush(); return 3; }
  init_strings(CONFIG_INT(__SHARED_STRING_HASH_TABLE_SIZE__), CONFIG_INT(__MAX_STRING_LENGTH__));
  init_lpc_compiler(CONFIG_INT(__MAX_LOCAL_VARIABLES__), CONFIG_STR(__INCLUDE_DIRS__));
  // the file layer is live before setup_simulate(): init_binaries() stats the simul_efun file
  files_reset();
  if (life > 0) files_load_state(S.root + "/.mtimes");
  S.fs_log = plan.optl("fs_log", 0) != 0;
  S.fs_active = true;
  setup_simulate();
  verif_instr_hook = instr_hook;

  eval_cost = CONFIG_INT(__MAX_EVAL_COST__);
  {
    static error_context_t econ;  // static: not clobbered by longjmp
    save_context(&econ);
    if (setjmp(econ.context)) {
      restore_context(&econ);
      pop_context(&econ);
      S.fs_active = false;
      ev("boot_fail mudlib_error");
      ev_flush();
      rm_tree(S.root);
      return 4;
    } else {
      current_time = time(NULL);
      init_simul_efun(CONFIG_STR(__SIMUL_EFUN_FILE__));
      init_master(CONFIG_STR(__MASTER_FILE__));
      preload_objects(0);
    }
    pop_context(&econ);
  }
  S.booted = true;
  ev("booted instr=%ld", S.instr_total);
  if (!g_proceeding_shutdown) {
    S.in_backend = true;
    backend();
    S.in_backend = false;
  }
  dump_users("final");
  kernel_dump_conns();
  S.fs_active = false;
  ev("backend_returned cycles=%ld instr=%ld faults=%ld timer_fires=%ld", S.cycle, S.instr_total, S.faults_fired, S.timer_fires);
  std::string st;
  for (auto &kv : S.stats) { st += " " + kv.first + "=" + std::to_string(kv.second); }
  ev("STATS%s", st.c_str());
  if (!last_life) {
    files_save_state(S.root + "/.mtimes");
    write_file_raw(S.root + "/.clock", std::to_string((long long)(S.base_time + S.vus / 1000000 + 1)));
    ev("life_end %d", life);
    ev_flush();
    return 0;
  }
  ev("END ok");
  ev_flush();
  rm_tree(S.root);
  return 0;
}

// ------------------------------------------------------------------ process management
// The serving parent never touches the malloc heap between runs (the raw plan text lives in an mmap'd buffer
// and is parsed in the child), so every child starts from the same heap state whatever ran before it.
#include <sys/mman.h>
#include <sys/time.h>
static char *planbuf; static size_t planlen; static const size_t PLANCAP = (size_t)1 << 30;
static char errpath[256], childdir[256];

static bool parse_plan_buf(Plan &p, std::string &err) {
  size_t i = 0;
  while (i < planlen) {
    size_t j = i;
    while (j < planlen && planbuf[j] != '\n') j++;
    std::string line(planbuf + i, j - i);
    while (!line.empty() && line.back() == '\r') line.pop_back();
    if (!line.empty() && !parse_line(line, p)) err = "bad plan line: " + line;
    i = j + 1;
  }
  return true;
}

static void wr(int fd, const char *s, size_t n) { size_t off = 0; while (off < n) { ssize_t k = __real_write(fd, s + off, n - off); if (k <= 0) break; off += (size_t)k; } }

static void run_child(int result_fd) {
  pid_t pid = fork();
  if (pid == 0) {
    int efd = open(errpath, O_WRONLY | O_CREAT | O_TRUNC, 0644);
    if (efd >= 0) { dup2(efd, 2); close(efd); }
    out_fd = result_fd;
    Plan plan; std::string err;
    parse_plan_buf(plan, err);
    if (!err.empty()) { std::string m = "X planerror " + pct_enc(err) + "\n"; wr(result_fd, m.data(), m.size()); _exit(0); }
    // lives: the steps between "restart" steps run in successive driver processes over the same scratch directory
    std::vector<std::vector<Step>> segs(1); std::vector<long> gaps;
    for (auto &st : plan.steps) {
      if (st.op == "restart") { gaps.push_back(st.a.size() ? atol(st.a[0].c_str()) : 1); segs.emplace_back(); }
      else segs.back().push_back(st);
    }
    if (segs.size() == 1) { int rc = sim_main_run(plan); COV_FLUSH(); _exit(rc); }
    g_root_pid = (int)getpid();
    for (size_t li = 0; li < segs.size(); li++) {
      pid_t lp = fork();
      if (lp == 0) {
        Plan pl = plan; pl.steps = segs[li];
        int rc = sim_main_run(pl, (int)li, li + 1 == segs.size(), li ? gaps[li - 1] : 0);
        COV_FLUSH(); _exit(rc);
      }
      int st2 = 0;
      while (waitpid(lp, &st2, 0) < 0 && errno == EINTR) {}
      if (WIFSIGNALED(st2)) { signal(WTERMSIG(st2), SIG_DFL); raise(WTERMSIG(st2)); _exit(99); }
      if (WEXITSTATUS(st2) != 0) _exit(WEXITSTATUS(st2));
    }
    _exit(0);
  }
  int status = 0;
  while (waitpid(pid, &status, 0) < 0 && errno == EINTR) {}
  snprintf(childdir, sizeof childdir, "%s/nsim-%08d", getenv("NSIM_TMP") ? getenv("NSIM_TMP") : (getenv("TMPDIR") ? getenv("TMPDIR") : "/tmp"), (int)pid);
  // cleanup and stderr forwarding happen in a throw-away child so that the parent's heap stays untouched
  pid_t c2 = fork();
  if (c2 == 0) {
    rm_tree(childdir);
    char line[300];
    if (WIFSIGNALED(status)) snprintf(line, sizeof line, "X signal %d\n", WTERMSIG(status));
    else snprintf(line, sizeof line, "X exit %d\n", WEXITSTATUS(status));
    std::string out = line;
    std::string err0 = read_file_raw(errpath);
    if (!(WIFEXITED(status) && WEXITSTATUS(status) == 0) || err0.find("runtime error:") != std::string::npos) {
      std::string err = err0;
      size_t sum = err.rfind("SUMMARY: ");
      std::string summary = sum == std::string::npos ? "" : err.substr(sum, err.find('\n', sum) - sum);
      size_t first = err.find("ERROR: AddressSanitizer");
      if (first == std::string::npos) first = err.find("runtime error:");
      if (first != std::string::npos && first > 200) err = err.substr(first - 100);
      if (err.size() > 6000) err = err.substr(0, 6000);
      err += "\n" + summary + "\n";
      out += "STDERR " + pct_enc(err) + "\n";
    }
    unlink(errpath);
    wr(result_fd, out.data(), out.size());
    _exit(0);
  }
  while (waitpid(c2, &status, 0) < 0 && errno == EINTR) {}
}

// read raw bytes from fd 0 until a line "." ; returns false on EOF
static bool read_plan_raw() {
  planlen = 0;
  static char rb[1 << 16]; static size_t rlen = 0, rpos = 0;
  size_t line_start = 0;
  for (;;) {
    if (rpos == rlen) {
      ssize_t n = __real_read(0, rb, sizeof rb);
      if (n <= 0) return false;
      rlen = (size_t)n; rpos = 0;
    }
    char c = rb[rpos++];
    if (planlen < PLANCAP) planbuf[planlen++] = c;
    if (c == '\n') {
      if (planlen - line_start == 2 && planbuf[line_start] == '.') { planlen = line_start; return true; }
      line_start = planlen;
    }
  }
}

int main(int argc, char **argv) {
  // address-dependent behaviour (tables sorted by string address) must not differ between processes
  if (!getenv("NSIM_NOASLR")) {
    int pers = personality(0xffffffff);
    if (pers != -1 && !(pers & ADDR_NO_RANDOMIZE)) {
      if (personality(pers | ADDR_NO_RANDOMIZE) != -1) { setenv("NSIM_NOASLR", "1", 1); execv("/proc/self/exe", argv); }
    }
  }
  signal(SIGPIPE, SIG_IGN);
  const char *ml = getenv("NSIM_MUDLIB");
  g_mudlib_src = ml ? ml : "/verif/mudlib";
  planbuf = (char *)mmap(NULL, PLANCAP, PROT_READ | PROT_WRITE, MAP_PRIVATE | MAP_ANONYMOUS | MAP_NORESERVE, -1, 0);
  snprintf(errpath, sizeof errpath, "%s/nsim-err-%08d", scratch_base().c_str(), (int)getpid());
  if (argc >= 3 && !strcmp(argv[1], "run")) {
    int fd = open(argv[2], O_RDONLY);
    if (fd < 0) { perror(argv[2]); return 2; }
    ssize_t n;
    while ((n = __real_read(fd, planbuf + planlen, 1 << 20)) > 0) planlen += (size_t)n;
    close(fd);
    if (argc >= 4 && !strcmp(argv[3], "--nofork")) { Plan p; std::string err; parse_plan_buf(p, err); return sim_main_run(p); }
    run_child(1);
    return 0;
  }
  if (argc >= 2 && !strcmp(argv[1], "serve")) {
    while (read_plan_raw()) {
      run_child(1);
      wr(1, ".\n", 2);
    }
    return 0;
  }
  fprintf(stderr, "usage: nsim run <plan> [--nofork] | nsim serve\n");
  return 2;
}
