// Shared declarations of the world simulator (W engines).
#pragma once
#include <config.h>
#include <cstdint>
#include <cstdio>
#include <string>
#include <vector>
#include <map>
#include <deque>
#include <algorithm>
#include <set>
#include <functional>

extern "C" {
#include "std.h"
#include "rc.h"
#include "comm.h"
#include "simul_efun.h"
#include "interpret.h"
#include "lpc/compiler.h"
#include "lpc/object.h"
#include "lpc/array.h"
#include "lpc/mapping.h"
#include "lpc/program.h"
#include "lpc/otable.h"
#include "efuns/call_out.h"
#include "port/timer.h"
#include "async/async_runtime.h"
#include "async/async_queue.h"
#include "async/console_worker.h"
}
#undef max
#undef min

// ---------------------------------------------------------------- plan
struct Step {
  std::string op;
  std::vector<std::string> a;  // decoded args
  bool same_cycle = false;     // '&' prefix: executed in the same epoll_wait call as the previous step
  std::string raw;
};

struct Plan {
  std::vector<std::pair<std::string, std::string>> cfg;    // driver config lines
  std::vector<std::pair<std::string, std::string>> files;  // mudlib files written before boot
  std::map<std::string, std::string> opt;                  // simulator options
  std::vector<Step> steps;
  long optl(const char *k, long def) const {
    auto it = opt.find(k);
    return it == opt.end() ? def : atol(it->second.c_str());
  }
};

// ---------------------------------------------------------------- event log
void ev(const char *fmt, ...) __attribute__((format(printf, 1, 2)));
void ev_flush();
void violation(const char *oracle, const char *fmt, ...) __attribute__((format(printf, 2, 3)));
std::string pct_enc(const std::string &s);
std::string pct_dec(const std::string &s);
std::string hex_enc(const void *p, size_t n);

// ---------------------------------------------------------------- simulated world state
struct Sim {
  Plan plan;
  size_t next_step = 0;
  long cycle = 0;              // number of epoll_wait calls so far
  int64_t vus = 0;             // virtual microseconds since boot
  int64_t vns_frac = 0;        // sub-microsecond remainder from instruction cost
  time_t base_time = 1000000000;
  long instr_total = 0;
  long elig_total = 0; bool elig_on = false;   // instructions executed in programs matching opt fault_only_prefix
  long instr_cost_ns = 100;
  long max_instr = 50000000;
  long max_rec = 0, rec_total = 0;
  long max_cycles = 200000;
  // fault injection
  long fault_countdown = -1;   // >=0: inject when reaches 0
  long compile_skip = -1, compile_room = -1;   // compileroom fault: see kernel.cpp do_step
  std::string fault_kind;
  long faults_fired = 0;
  bool in_backend = false;
  bool booted = false;
  std::string root;            // scratch root
  bool console_mode = false;
  bool stdin_tty = true;
  timer_callback_t timer_cb = nullptr;
  bool timer_active = false;
  long timer_fires = 0;
  long timer_countdown = -1;   // >=0: fire the timer callback after this many more instructions
  long timer_dt = 0;
  std::map<std::string, long> stats;
  bool fs_active = false;      // file layer intercepts (from mudlib boot until backend returns)
  bool in_boot_files = false;
  bool fs_log = false;         // log every file call (C15)
};
extern Sim S;

void kernel_reset();
bool kernel_is_simfd(int fd);
void run_external_steps();  // called at epoll_wait entry
void invariants_at_cycle();
int  sim_main_run(const Plan &p, int life = 0, bool last_life = true, long gap_s = 0);
bool parse_plan(FILE *in, Plan &p, std::string &err);
void files_init();
void sim_fire_timer();
ssize_t files_read(int fd, void *buf, size_t n);
ssize_t files_write(int fd, const void *buf, size_t n);
bool files_close(int fd);
void files_reset();
void files_arm_stop(long n, bool once = false, long torn_permille = -1);
long files_mut_calls();
void files_set_mtime(const std::string &p, time_t t);
void files_save_state(const std::string &path);
void files_set_read_faults(long short_read, long eio_in);
void files_load_state(const std::string &path);
