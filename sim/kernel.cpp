// Simulated kernel for the W engines: sockets, epoll, eventfd, console fds, clock, timer and
// console-worker stubs.  All entry points are link-time wraps (-Wl,--wrap=sym) on the harness
// executable only; nothing in /repo changes for these.
#include "sim.h"
#include <sys/epoll.h>
#include <sys/eventfd.h>
#include <sys/socket.h>
#include <sys/ioctl.h>
#include <sys/time.h>
#include <netinet/in.h>
#include <arpa/inet.h>
#include <termios.h>
#include <unistd.h>
#include <fcntl.h>
#include <errno.h>
#include <stdarg.h>
#include <string.h>
#include <algorithm>

enum Kind { K_SOCK, K_LISTEN, K_CONN, K_EPOLL, K_EVENTFD };

struct Conn {
  int id = -1;
  int fd = -1;
  int port_idx = 0;
  std::deque<std::string> in;        // client->server segments (recv returns at most one segment)
  bool eof = false;                  // client half-closed: recv returns 0 once 'in' is drained
  bool rst = false;                  // connection reset: recv/send fail, epoll reports ERR|HUP
  bool server_closed = false;
  std::deque<std::string> send_script;  // results of future send() calls
  int recv_eintr = 0;                   // this many of the next recv() calls are interrupted (EINTR)
  bool spurious = false;                // the next poll reports the connection readable although nothing has arrived
  long tx_bytes = 0;
  bool accepted = false;
  bool rx_cr = false;              // last delivered byte was CR (telnet newline may span two recv calls)
};

struct SimFd {
  Kind kind;
  int port = 0;               // listen: bound port
  std::deque<int> backlog;    // listen: pending conn ids
  int conn = -1;              // conn id
  uint64_t counter = 0;       // eventfd
  std::map<int, epoll_event> interest;  // epoll: fd -> event
};

static std::map<int, SimFd> fds;
static std::map<int, Conn> conns;   // keyed by the conn id the plan gives
static int the_eventfd = -1;

static const int SIMFD_BASE = 1000;

static int alloc_fd() {
  int fd = SIMFD_BASE;
  while (fds.count(fd)) fd++;
  return fd;
}

void kernel_dump_conns() {
  for (auto &kv : conns) {
    size_t pend = 0; for (auto &sg : kv.second.in) pend += sg.size();
    ev("connq conn=%d pending=%zu segs=%zu eof=%d rst=%d closed=%d", kv.first, pend, kv.second.in.size(), (int)kv.second.eof, (int)kv.second.rst, (int)kv.second.server_closed);
  }
}
int kernel_conn_of_fd(int fd) { auto it = fds.find(fd); if (it == fds.end() || it->second.kind != K_CONN) return fd == 0 ? -2 : -1; return it->second.conn; }
bool kernel_is_simfd(int fd) { return fd >= SIMFD_BASE && fds.count(fd); }

void kernel_reset();

void kernel_reset() { fds.clear(); conns.clear(); the_eventfd = -1; }
static uint64_t splitmix(uint64_t x) {
  x += 0x9e3779b97f4a7c15ULL;
  x = (x ^ (x >> 30)) * 0xbf58476d1ce4e5b9ULL;
  x = (x ^ (x >> 27)) * 0x94d049bb133111ebULL;
  return x ^ (x >> 31);
}

static long syscalls = 0;
static void advance_us(int64_t us) {
  S.vus += us;
  if (++syscalls > 300000) { ev("HANG syscalls"); ev_flush(); _exit(75); }
}

// ------------------------------------------------------------------ clock
extern "C" time_t __wrap_time(time_t *t) {
  time_t v = S.base_time + (time_t)(S.vus / 1000000);
  if (t) *t = v;
  return v;
}
extern "C" int __wrap_gettimeofday(struct timeval *tv, void *tz) {
  (void)tz;
  if (tv) { tv->tv_sec = S.base_time + S.vus / 1000000; tv->tv_usec = S.vus % 1000000; }
  return 0;
}

// ------------------------------------------------------------------ timer stub
extern "C" timer_error_t __wrap_platform_timer_init(platform_timer_t *t) { if (!t) return TIMER_ERR_NULL_PARAM; t->internal = (void *)&S; return TIMER_OK; }
extern "C" timer_error_t __wrap_platform_timer_start(platform_timer_t *t, unsigned long interval_us, timer_callback_t cb) {
  (void)t; (void)interval_us;
  S.timer_cb = cb; S.timer_active = true;
  ev("timer_start %lu", interval_us);
  return TIMER_OK;
}
extern "C" timer_error_t __wrap_platform_timer_stop(platform_timer_t *t) { (void)t; S.timer_active = false; return TIMER_OK; }
extern "C" void __wrap_platform_timer_cleanup(platform_timer_t *t) { (void)t; S.timer_active = false; S.timer_cb = nullptr; }
extern "C" int __wrap_platform_timer_is_active(const platform_timer_t *t) { (void)t; return S.timer_active; }

void sim_fire_timer() {
  if (S.timer_cb && S.timer_active) { S.timer_fires++; S.timer_cb(); }
}

// ------------------------------------------------------------------ console worker stub
static console_worker_context_t fake_console_ctx;
extern "C" int __real_async_runtime_add_console(async_runtime_t *, void *);
extern "C" console_worker_context_t *__wrap_console_worker_init(async_runtime_t *rt, async_queue_t *q, uintptr_t key) {
  memset(&fake_console_ctx, 0, sizeof fake_console_ctx);
  fake_console_ctx.line_queue = q;
  fake_console_ctx.runtime = rt;
  fake_console_ctx.completion_key = key;
  async_runtime_add_console(rt, NULL);
  fake_console_ctx.console_type = async_runtime_get_console_type(rt);
  ev("console_worker_init type=%d", (int)fake_console_ctx.console_type);
  return &fake_console_ctx;
}
extern "C" bool __wrap_console_worker_shutdown(console_worker_context_t *c, int t) { (void)c; (void)t; return true; }
extern "C" void __wrap_console_worker_destroy(console_worker_context_t *c) { (void)c; }

// plays the console worker thread: one read() result of the real worker = one line
static void console_line(const std::string &text) {
  if (!g_console_queue || !g_runtime) { ev("console_drop no-queue"); return; }
  std::string s = text;
  if (s.size() > CONSOLE_MAX_LINE - 1) s.resize(CONSOLE_MAX_LINE - 1);
  bool ok = async_queue_enqueue(g_console_queue, s.c_str(), s.size() + 1);
  async_runtime_post_completion(g_runtime, CONSOLE_COMPLETION_KEY, s.size());
  ev("console_in %d %s", (int)ok, pct_enc(s).c_str());
}

// ------------------------------------------------------------------ tty
extern "C" int __wrap_isatty(int fd) { if (fd == 0) return S.stdin_tty ? 1 : 0; return 0; }
extern "C" int __wrap_tcgetattr(int fd, struct termios *t) { (void)fd; memset(t, 0, sizeof *t); return 0; }
extern "C" int __wrap_tcsetattr(int fd, int a, const struct termios *t) { (void)fd; (void)a; (void)t; S.stats["tcsetattr"]++; return 0; }

// ------------------------------------------------------------------ sockets
extern "C" int __wrap_socket(int d, int t, int p) {
  (void)d; (void)t; (void)p;
  int fd = alloc_fd();
  fds[fd].kind = K_SOCK;
  return fd;
}
extern "C" int __real_setsockopt(int, int, int, const void *, socklen_t);
extern "C" int __wrap_setsockopt(int fd, int l, int o, const void *v, socklen_t n) {
  if (kernel_is_simfd(fd)) return 0;
  return __real_setsockopt(fd, l, o, v, n);
}
extern "C" int __real_bind(int, const struct sockaddr *, socklen_t);
extern "C" int __wrap_bind(int fd, const struct sockaddr *a, socklen_t n) {
  if (!kernel_is_simfd(fd)) return __real_bind(fd, a, n);
  fds[fd].port = ntohs(((const struct sockaddr_in *)a)->sin_port);
  return 0;
}
extern "C" int __real_getsockname(int, struct sockaddr *, socklen_t *);
extern "C" int __wrap_getsockname(int fd, struct sockaddr *a, socklen_t *n) {
  if (!kernel_is_simfd(fd)) return __real_getsockname(fd, a, n);
  struct sockaddr_in sin; memset(&sin, 0, sizeof sin);
  sin.sin_family = AF_INET; sin.sin_port = htons(fds[fd].port); sin.sin_addr.s_addr = htonl(INADDR_LOOPBACK);
  memcpy(a, &sin, std::min((size_t)*n, sizeof sin)); *n = sizeof sin;
  return 0;
}
extern "C" int __real_getpeername(int, struct sockaddr *, socklen_t *);
extern "C" int __wrap_getpeername(int fd, struct sockaddr *a, socklen_t *n) {
  if (!kernel_is_simfd(fd)) return __real_getpeername(fd, a, n);
  struct sockaddr_in sin; memset(&sin, 0, sizeof sin);
  sin.sin_family = AF_INET; sin.sin_port = htons(40000); sin.sin_addr.s_addr = htonl(INADDR_LOOPBACK);
  memcpy(a, &sin, std::min((size_t)*n, sizeof sin)); *n = sizeof sin;
  return 0;
}
extern "C" int __real_listen(int, int);
extern "C" int __wrap_listen(int fd, int b) {
  if (!kernel_is_simfd(fd)) return __real_listen(fd, b);
  fds[fd].kind = K_LISTEN;
  ev("listen port=%d", fds[fd].port);
  return 0;
}
extern "C" int __wrap_ioctl(int fd, unsigned long req, ...) {
  va_list ap; va_start(ap, req); void *arg = va_arg(ap, void *); va_end(ap);
  if (kernel_is_simfd(fd)) return 0;
  extern int __real_ioctl(int, unsigned long, ...);
  return __real_ioctl(fd, req, arg);
}
extern "C" int __wrap_fcntl(int fd, int cmd, ...) {
  va_list ap; va_start(ap, cmd); long arg = va_arg(ap, long); va_end(ap);
  if (kernel_is_simfd(fd)) return 0;
  extern int __real_fcntl(int, int, ...);
  return __real_fcntl(fd, cmd, arg);
}

static int listen_fd_for_port_idx(int idx) {
  if (idx < 0 || idx >= 5) return -1;
  int fd = external_port[idx].fd;
  if (external_port[idx].port && kernel_is_simfd(fd) && fds[fd].kind == K_LISTEN) return fd;
  return -1;
}

static int accept_fail = 0, accept_fail_errno = EMFILE;
extern "C" int __wrap_accept(int lfd, struct sockaddr *a, socklen_t *n) {
  if (!kernel_is_simfd(lfd) || fds[lfd].kind != K_LISTEN) { errno = EBADF; return -1; }
  SimFd &l = fds[lfd];
  if (l.backlog.empty()) { errno = EWOULDBLOCK; S.stats["accept_wouldblock"]++; return -1; }
  // the process is out of descriptors for a while (or the call is interrupted): the connection stays in the queue
  if (accept_fail > 0) { accept_fail--; errno = accept_fail_errno; S.stats["accept_failed"]++; ev("accept_fail errno=%d left=%d", errno, accept_fail); return -1; }
  int cid = l.backlog.front(); l.backlog.pop_front();
  int fd = alloc_fd();
  fds[fd].kind = K_CONN; fds[fd].conn = cid;
  conns[cid].fd = fd; conns[cid].accepted = true;
  struct sockaddr_in sin; memset(&sin, 0, sizeof sin);
  sin.sin_family = AF_INET; sin.sin_port = htons(40000 + cid); sin.sin_addr.s_addr = htonl(INADDR_LOOPBACK);
  if (a && n) { memcpy(a, &sin, std::min((size_t)*n, sizeof sin)); *n = sizeof sin; }
  ev("accept conn=%d fd=%d", cid, fd);
  return fd;
}

// a descriptor reported readable that the driver does not read is reported again at once by a level-triggered poll: three
// cycles in a row of that are a busy loop in deployment
static std::map<int, int> in_reported, in_ignored;
extern "C" ssize_t __wrap_recv(int fd, void *buf, size_t len, int flags) {
  (void)flags;
  if (!kernel_is_simfd(fd) || fds[fd].kind != K_CONN) { errno = EBADF; ev("recv_badfd %d", fd); S.stats["badfd"]++; return -1; }
  in_reported.erase(fd); in_ignored.erase(fd);
  Conn &c = conns[fds[fd].conn];
  advance_us(2);
  if (c.rst) { errno = ECONNRESET; ev("recv conn=%d rst", c.id); return -1; }
  if (c.recv_eintr > 0) { c.recv_eintr--; errno = EINTR; S.stats["recv_eintr"]++; ev("recv conn=%d eintr", c.id); return -1; }   // interrupted before any byte was copied: the data is still there
  if (!c.in.empty()) {
    std::string &seg = c.in.front();
    size_t n = std::min(len, seg.size());
    if (n == 0 && len == 0) { ev("recv conn=%d len0", c.id); return 0; }
    memcpy(buf, seg.data(), n);
    int nls = 0;   // telnet newline sequences (CR LF / CR NUL) completed by this read
    for (size_t i = 0; i < n; i++) {
      unsigned char ch = (unsigned char)seg[i];
      if (c.rx_cr && (ch == '\n' || ch == 0)) nls++;
      c.rx_cr = (ch == '\r');
    }
    if (n == seg.size()) c.in.pop_front(); else seg.erase(0, n);
    ev("recv conn=%d n=%zu asked=%zu crnl=%d", c.id, n, len, nls);
    S.stats["recv_calls"]++;
    if (n < len) S.stats["recv_short"]++;
    return (ssize_t)n;
  }
  if (c.eof) { ev("recv conn=%d eof", c.id); return 0; }
  errno = EWOULDBLOCK; S.stats["recv_wouldblock"]++;
  ev("recv conn=%d wouldblock", c.id);
  return -1;
}

extern "C" ssize_t __wrap_send(int fd, const void *buf, size_t len, int flags) {
  (void)flags;
  if (!kernel_is_simfd(fd) || fds[fd].kind != K_CONN) { errno = EBADF; ev("send_badfd %d", fd); S.stats["badfd"]++; return -1; }
  Conn &c = conns[fds[fd].conn];
  advance_us(2);
  if (c.rst) { errno = EPIPE; ev("send conn=%d epipe(rst)", c.id); S.stats["send_epipe"]++; return -1; }
  size_t n = len;
  if (!c.send_script.empty()) {
    std::string r = c.send_script.front(); c.send_script.pop_front();
    if (r == "w") { errno = EWOULDBLOCK; S.stats["send_wouldblock"]++; ev("send conn=%d wouldblock", c.id); return -1; }
    if (r == "i") { errno = EINTR; S.stats["send_eintr"]++; ev("send conn=%d eintr", c.id); return -1; }
    if (r == "e") { errno = EPIPE; c.rst = true; S.stats["send_epipe"]++; ev("send conn=%d epipe", c.id); return -1; }
    if (r == "r") { errno = ECONNRESET; c.rst = true; S.stats["send_reset"]++; ev("send conn=%d reset", c.id); return -1; }
    // the kernel is short of buffer space right now: nothing is wrong with the connection, a later send succeeds
    if (r == "n") { errno = ENOBUFS; S.stats["send_enobufs"]++; ev("send conn=%d enobufs", c.id); return -1; }
    if (r[0] == 'p') { size_t k = (size_t)atol(r.c_str() + 1); if (k < 1) k = 1; if (k < n) { n = k; S.stats["send_partial"]++; } }
  }
  c.tx_bytes += (long)n;
  S.stats["send_ok"]++;
  ev("tx conn=%d n=%zu of=%zu %s", c.id, n, len, hex_enc(buf, n).c_str());
  return (ssize_t)n;
}

extern "C" int __real_close(int);
extern "C" int __real_open(const char *, int, ...);
extern "C" int __wrap_close(int fd) {
  if (fd >= SIMFD_BASE) {
    if (!fds.count(fd)) { errno = EBADF; ev("close_badfd %d", fd); S.stats["badfd"]++; return -1; }
    SimFd &f = fds[fd];
    if (f.kind == K_CONN) { conns[f.conn].server_closed = true; conns[f.conn].fd = -1; ev("close conn=%d", f.conn); }
    else ev("close fd=%d kind=%d", fd, (int)f.kind);
    for (auto &kv : fds) if (kv.second.kind == K_EPOLL) kv.second.interest.erase(fd);
    fds.erase(fd);
    return 0;
  }
  files_close(fd);
  return __real_close(fd);
}

// ------------------------------------------------------------------ eventfd / read / write
extern "C" int __wrap_eventfd(unsigned int init, int flags) {
  (void)flags;
  int fd = alloc_fd();
  fds[fd].kind = K_EVENTFD; fds[fd].counter = init;
  the_eventfd = fd;
  return fd;
}
extern "C" ssize_t __real_read(int, void *, size_t);
extern "C" ssize_t __wrap_read(int fd, void *buf, size_t n) {
  if (kernel_is_simfd(fd)) {
    SimFd &f = fds[fd];
    if (f.kind == K_EVENTFD) {
      if (n < 8) { errno = EINVAL; return -1; }
      if (f.counter == 0) { errno = EAGAIN; return -1; }
      uint64_t v = f.counter; f.counter = 0;
      memcpy(buf, &v, 8);
      ev("eventfd_read %llx", (unsigned long long)v);
      return 8;
    }
    errno = EBADF; return -1;
  }
  return files_read(fd, buf, n);
}
extern "C" ssize_t __real_write(int, const void *, size_t);
extern "C" ssize_t __wrap_write(int fd, const void *buf, size_t n) {
  if (kernel_is_simfd(fd)) {
    SimFd &f = fds[fd];
    if (f.kind == K_EVENTFD) {
      uint64_t v; if (n < 8) { errno = EINVAL; return -1; }
      memcpy(&v, buf, 8);
      if (f.counter) S.stats["eventfd_merged"]++;
      f.counter += v;
      return 8;
    }
    errno = EBADF; return -1;
  }
  if (fd == 1 && S.in_backend && S.console_mode) {
    ev("cons_tx %s", hex_enc(buf, n).c_str());
    return (ssize_t)n;
  }
  return files_write(fd, buf, n);
}

// ------------------------------------------------------------------ epoll
extern "C" int __wrap_epoll_create1(int flags) {
  (void)flags;
  int fd = alloc_fd();
  fds[fd].kind = K_EPOLL;
  return fd;
}
extern "C" int __wrap_epoll_ctl(int ep, int op, int fd, struct epoll_event *e) {
  if (!kernel_is_simfd(ep) || fds[ep].kind != K_EPOLL) { errno = EBADF; return -1; }
  SimFd &E = fds[ep];
  if (!kernel_is_simfd(fd)) { errno = EBADF; ev("epoll_ctl_badfd op=%d fd=%d", op, fd); S.stats["epoll_ctl_badfd"]++; return -1; }
  switch (op) {
  case EPOLL_CTL_ADD:
    if (E.interest.count(fd)) { errno = EEXIST; S.stats["epoll_ctl_err"]++; return -1; }
    E.interest[fd] = *e; return 0;
  case EPOLL_CTL_MOD:
    if (!E.interest.count(fd)) { errno = ENOENT; ev("epoll_ctl_mod_noent fd=%d", fd); S.stats["epoll_ctl_err"]++; return -1; }
    E.interest[fd] = *e; return 0;
  case EPOLL_CTL_DEL:
    if (!E.interest.count(fd)) { errno = ENOENT; S.stats["epoll_ctl_err"]++; return -1; }
    E.interest.erase(fd); return 0;
  }
  errno = EINVAL; return -1;
}

// ------------------------------------------------------------------ plan steps (external events)
static std::vector<std::string> split(const std::string &s, char sep) {
  std::vector<std::string> r; std::string cur;
  for (char ch : s) { if (ch == sep) { r.push_back(cur); cur.clear(); } else cur += ch; }
  r.push_back(cur);
  return r;
}

static void do_step(const Step &st) {
  const std::string &op = st.op;
  ev("step %s", st.raw.c_str());
  if (op == "idle") return;
  if (op == "tick") {           // tick <dt_us>: time passes, the timer thread fires once
    advance_us(st.a.size() ? atol(st.a[0].c_str()) : 2000000);
    sim_fire_timer();
  } else if (op == "stall") {   // stall <dt_us> <nfires>: time passes, several expiries coalesce
    advance_us(atol(st.a[0].c_str()));
    long n = st.a.size() > 1 ? atol(st.a[1].c_str()) : 1;
    for (long i = 0; i < n; i++) sim_fire_timer();
  } else if (op == "adv") {     // adv <dt_us>: time passes without timer expiry
    advance_us(atol(st.a[0].c_str()));
  } else if (op == "connect") { // connect <port_idx>
    int idx = atoi(st.a[0].c_str());
    int cid = st.a.size() > 1 ? atoi(st.a[1].c_str()) : (int)conns.size();
    if (conns.count(cid)) { ev("connect_dup conn=%d", cid); return; }
    Conn c; c.id = cid; c.port_idx = idx;
    conns[cid] = c;
    int lfd = listen_fd_for_port_idx(idx);
    if (lfd < 0) { conns[cid].rst = true; ev("connect_refused conn=%d", c.id); }
    else fds[lfd].backlog.push_back(c.id);
  } else if (op == "send") {    // send <conn> <bytes> [seg,seg,...]
    int cid = atoi(st.a[0].c_str());
    if (!conns.count(cid)) { ev("send_ignored conn=%d", cid); return; }
    Conn &c = conns[cid];
    if (c.eof || c.rst || c.server_closed) { ev("send_ignored conn=%d", cid); return; }
    const std::string &data = st.a[1];
    size_t pos = 0;
    if (st.a.size() > 2 && st.a[2] != "-") {
      for (auto &sz : split(st.a[2], ',')) {
        size_t k = (size_t)atol(sz.c_str());
        if (k == 0) continue;
        if (pos >= data.size()) break;
        k = std::min(k, data.size() - pos);
        c.in.push_back(data.substr(pos, k)); pos += k;
      }
    }
    if (pos < data.size()) c.in.push_back(data.substr(pos));
  } else if (op == "eof") {
    int cid = atoi(st.a[0].c_str());
    if (conns.count(cid)) conns[cid].eof = true;
  } else if (op == "rst") {
    int cid = atoi(st.a[0].c_str());
    if (conns.count(cid)) { conns[cid].rst = true; conns[cid].in.clear(); }
  } else if (op == "sendscript") {  // sendscript <conn> a,p3,w,i,e
    int cid = atoi(st.a[0].c_str());
    if (conns.count(cid))
      for (auto &r : split(st.a[1], ',')) if (!r.empty()) conns[cid].send_script.push_back(r);
  } else if (op == "spurious") {    // spurious <conn>: one spurious read readiness
    int cid = atoi(st.a[0].c_str());
    if (conns.count(cid)) conns[cid].spurious = true;
  } else if (op == "acceptfail") {  // acceptfail <k> [eintr]: the next k accept() calls fail with EMFILE (or EINTR)
    accept_fail = atoi(st.a[0].c_str()); accept_fail_errno = (st.a.size() > 1 && st.a[1] == "eintr") ? EINTR : EMFILE;
  } else if (op == "recvintr") {    // recvintr <conn> <k>: the next k recv() calls on the connection return EINTR
    int cid = atoi(st.a[0].c_str());
    if (conns.count(cid)) conns[cid].recv_eintr += atoi(st.a[1].c_str());
  } else if (op == "openwindow") {  // openwindow <conn>: forget the remaining scripted send results
    int cid = atoi(st.a[0].c_str());
    if (conns.count(cid)) conns[cid].send_script.clear();
  } else if (op == "console") {
    console_line(st.a.size() ? st.a[0] : std::string());
  } else if (op == "fault") {   // fault <k> [kind]: inject an LPC error at the k-th instruction from now
    S.fault_kind = st.a.size() > 1 ? st.a[1] : "error";
    if (atol(st.a[0].c_str()) < 0) S.compile_room = -1;       // "fault -1 ...": every armed fault is disarmed
    if (!S.fault_kind.compare(0, 12, "compileroom:")) {
      // fault <k> compileroom:<r>: the k-th compilation from now starts with only r free slots on the value stack
      S.compile_skip = atol(st.a[0].c_str()); S.compile_room = atol(S.fault_kind.c_str() + 12);
      if (S.compile_skip < 0) S.compile_room = -1;
    } else
      S.fault_countdown = atol(st.a[0].c_str());
  } else if (op == "fsopt") {        // fsopt <short_read mode | -1> <eio at the k-th read from now | -1>
    files_set_read_faults(atol(st.a[0].c_str()), st.a.size() > 1 ? atol(st.a[1].c_str()) : -1);
  } else if (op == "fsarm") {        // fsarm <n>: the disk stops at the n-th mutating file call from now
    // "once": a transient error, only that call fails; "torn:<permille>": if that call is a write, this share of its bytes still reaches the file
    bool once = false; long torn = -1;
    for (size_t k = 1; k < st.a.size(); k++) { if (st.a[k] == "once") once = true; else if (st.a[k].compare(0, 5, "torn:") == 0) torn = atol(st.a[k].c_str() + 5); }
    files_arm_stop(atol(st.a[0].c_str()), once, torn);
  } else if (op == "fsdisarm") {
    ev("fs_mut_calls %ld", files_mut_calls());
    files_arm_stop(-1);
  } else if (op == "writefile") {    // writefile <path> <content>: somebody edits a mudlib file (mtime = now)
    std::string path = st.a[0];
    while (!path.empty() && path[0] == '/') path.erase(0, 1);
    int fd = __real_open(path.c_str(), O_WRONLY | O_CREAT | O_TRUNC, 0644);
    if (fd >= 0) { __real_write(fd, st.a[1].data(), st.a[1].size()); __real_close(fd); }
    files_set_mtime(path, S.base_time + (time_t)(S.vus / 1000000));
    ev("writefile %s %d", path.c_str(), fd >= 0);
  } else if (op == "touch") {        // touch <path> [delta_s]
    std::string path = st.a[0];
    while (!path.empty() && path[0] == '/') path.erase(0, 1);
    files_set_mtime(path, S.base_time + (time_t)(S.vus / 1000000) + (st.a.size() > 1 ? atol(st.a[1].c_str()) : 0));
  } else if (op == "firetimer") {  // firetimer <k> <dt_us>: the timer thread fires in the middle of an evaluation, k instructions from now
    S.timer_countdown = atol(st.a[0].c_str());
    S.timer_dt = st.a.size() > 1 ? atol(st.a[1].c_str()) : 2000000;
  } else if (op == "shutdown") {
    g_proceeding_shutdown = 1;
  } else {
    ev("step_unknown %s", op.c_str());
  }
}

void run_external_steps() {
  bool first = true;
  while (S.next_step < S.plan.steps.size()) {
    const Step &st = S.plan.steps[S.next_step];
    if (!first && !st.same_cycle) break;
    do_step(st);
    S.next_step++;
    first = false;
  }
  if (first) {  // plan exhausted
    if (!g_proceeding_shutdown) { ev("plan_end"); g_proceeding_shutdown = 1; }
  }
}

extern "C" int __wrap_epoll_wait(int ep, struct epoll_event *out, int maxev, int timeout_ms) {
  if (!kernel_is_simfd(ep) || fds[ep].kind != K_EPOLL) { errno = EBADF; return -1; }
  S.cycle++;
  if (S.cycle > S.max_cycles) { ev("HANG cycles"); ev_flush(); _exit(75); }
  if (S.elig_on) ev("cycle timeout=%d instr=%ld elig=%ld", timeout_ms, S.instr_total, S.elig_total);
  else ev("cycle timeout=%d instr=%ld", timeout_ms, S.instr_total);
  for (auto it = in_reported.begin(); it != in_reported.end(); ) {
    int fd = it->first;
    auto f = fds.find(fd);
    if (f == fds.end() || f->second.kind != K_CONN) { in_ignored.erase(fd); it = in_reported.erase(it); continue; }
    // (whether the cycles in between were cut short by an error - then the event is simply due again - is judged by the oracle)
    if (++in_ignored[fd] <= 8) { ev("unread conn=%d fd=%d run=%d", f->second.conn, fd, in_ignored[fd]); S.stats["ready_unread"]++; }
    ++it;
  }
  in_reported.clear();
  invariants_at_cycle();
  run_external_steps();
  advance_us(5);
  SimFd &E = fds[ep];
  std::vector<epoll_event> ready;
  std::vector<int> ready_fd;      // parallel to ready: the descriptor when it is a connection reported readable, else -1
  for (auto &kv : E.interest) {
    int fd = kv.first; uint32_t want = kv.second.events; uint32_t got = 0;
    auto it = fds.find(fd);
    if (it == fds.end()) continue;
    SimFd &f = it->second;
    if (f.kind == K_LISTEN) { if (!f.backlog.empty() && (want & EPOLLIN)) got |= EPOLLIN; }
    else if (f.kind == K_EVENTFD) { if (f.counter && (want & EPOLLIN)) got |= EPOLLIN; }
    else if (f.kind == K_CONN) {
      Conn &c = conns[f.conn];
      if (c.rst) got |= EPOLLERR | EPOLLHUP;
      if ((want & EPOLLIN) && (!c.in.empty() || c.eof)) got |= EPOLLIN;
      if ((want & EPOLLIN) && c.spurious) { got |= EPOLLIN; c.spurious = false; S.stats["spurious_readiness"]++; }     // reported readable, nothing to read (legal for epoll)
      if (want & EPOLLOUT) {
        if (!c.send_script.empty() && c.send_script.front() == "w") { c.send_script.pop_front(); S.stats["window_closed_cycles"]++; }
        else got |= EPOLLOUT;
      }
    }
    if (got) { epoll_event e = kv.second; e.events = got; ready.push_back(e); }
    if (got) ready_fd.push_back(((got & EPOLLIN) && f.kind == K_CONN) ? fd : -1);
  }
  // kernel order of the ready list is unspecified: permute it deterministically
  uint64_t seed = (uint64_t)S.plan.optl("epoll_seed", 0);
  if (seed && ready.size() > 1) {
    uint64_t x = splitmix(seed ^ (uint64_t)S.cycle * 0x9e37ULL);
    for (size_t i = ready.size() - 1; i > 0; i--) { x = splitmix(x); std::swap(ready[i], ready[x % (i + 1)]); std::swap(ready_fd[i], ready_fd[x % (i + 1)]); }
    S.stats["epoll_permuted"]++;
  }
  int n = (int)std::min(ready.size(), (size_t)maxev);
  for (int i = 0; i < n; i++) { out[i] = ready[i]; if (ready_fd[i] >= 0) in_reported[ready_fd[i]] = 1; }
  if (n == 0 && timeout_ms != 0) S.stats["epoll_timeouts"]++;
  ev("epoll n=%d", n);
  return n;
}
