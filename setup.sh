#!/bin/bash
# Build the driver (hooks on, ASan/UBSan) from /repo's working tree and the simulator against it.
set -e
cd "$(dirname "$0")"
tools/build_repo.sh asan >/dev/null
tools/build_sim.sh asan >/dev/null
echo "setup ok"
