// named blueprint b1 for the object-table checks
inherit "/wobj";
