// named blueprint b2 for the object-table checks
inherit "/wobj";
