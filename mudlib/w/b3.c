// named blueprint b3 for the object-table checks
inherit "/wobj";
