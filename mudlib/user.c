// verification user object
inherit "/script";
#include "/mcfg.h"

int n_hb;
int query_n_hb() { return n_hb; }

void create() { seteuid(getuid()); }

void logon() {
  rec("LOGON " + file_name(this_object()));
  enable_commands();
  add_action("cmd_any", "", 1);
  add_action("cmd_do", "do");
  add_action("cmd_x", "x");
  add_action("cmd_y", "y");
  add_action("cmd_nf", "nf");
#ifdef LOGON_SCRIPT
  run(LOGON_SCRIPT);
#endif
}

#ifdef WRITE_PROMPT_SCRIPT
void write_prompt() { run(WRITE_PROMPT_SCRIPT); }
#else
void write_prompt() { }
#endif

int cmd_do(string arg);

#ifdef USER_PROCESS_INPUT
mixed process_input(mixed s) {
  if (bufferp(s)) {
    string hx; int i;
    hx = "";
    for (i = 0; i < sizeof(s); i++) hx += sprintf("%02x", s[i]);
    rec("PIB " + me() + " " + hx);
    return 0;
  }
  rec("PI " + me() + " " + s);
  // one particular line makes process_input() fail (after the record: the line was delivered)
  if (stringp(s) && strlen(s) > 5 && s[<6..] == "PIBOOM") error("process_input fails on this line\n");
#ifdef PI_SCRIPT
  run(PI_SCRIPT);
#endif
#ifdef ASCII_PORT
  /* on an ASCII port the driver hands lines to process_input only */
  if (query_ip_port(this_object()) == ASCII_PORT && strlen(s) > 3 && s[0..2] == "do ") cmd_do(s[3..]);
#endif
  return 0;
}
#endif

// exec(): this connection moves to a fresh user object, which takes over the tag
void after_exec(string t, string from) {
  enable_commands();
  add_action("cmd_any", "", 1);
  add_action("cmd_do", "do");
  add_action("cmd_x", "x");
  add_action("cmd_y", "y");
  add_action("cmd_nf", "nf");
  if (t) { set_tag(t); rec("NAME " + t + " " + file_name(this_object())); }
  rec("EXECD " + me() + " " + from);
}

int cmd_do(string arg) {
  rec("DO " + me() + " " + arg);
  run(arg);
  return 1;
}

// a command that fails after registering a notify_fail function: the driver runs the function once every action said no
string nf_cb(string script) { rec("NFCB " + me()); run(script); return "NFMSG " + me() + "\n"; }
int cmd_nf(string arg) { rec("NF " + me() + " " + arg); notify_fail((: nf_cb, arg :)); return 0; }

int cmd_any(string arg) {
  if (query_verb() == "nf") return 0;
  if (query_verb() == "df") { rec("DFAIL " + me()); return 0; }     // nobody takes this verb and no notify_fail is set: the driver's default failure message
  rec("CMD " + me() + " " + query_verb() + (arg ? " " + arg : ""));
  return 1;
}

string hx(string s) { string r; int i; r = "-"; for (i = 0; i < strlen(s); i++) r += sprintf("%02x", s[i] & 255); return r; }
void set_terminal_type(string t) { rec("TT " + me() + " " + hx(t)); hook("tt"); }
void set_window_size(int w, int h) { rec("WS " + me() + " " + w + " " + h); hook("ws"); }
void telnet_suboption(string t) { rec("SUBOPT " + me() + " " + hx(t)); hook("so"); }

// what a snooped user sees and types is handed to the snooper through this apply - from inside add_message()
void receive_snoop(string s) { rec("SNOOP " + me() + " " + strlen(s)); hook("snoop"); }

void net_dead() {
  rec("NETDEAD " + me());
#ifdef NETDEAD_SCRIPT
  run(NETDEAD_SCRIPT);
#endif
  hook("net_dead");
}

void heart_beat() {
  n_hb++;
  rec("HB " + me() + " " + n_hb + " t=" + time());
  hook("hb");
}
