inherit "/spend";
// script interpreter shared by user.c and vobj.c: executes small ops encoded as strings.
// An op is "name arg arg..."; a script is ops joined by ";" (nested scripts use "," instead).
mixed *held;     // values kept alive on purpose
string tag;      // identity tag for logs
mapping scripts; // hook name -> script

string me() { return tag ? tag : file_name(this_object()); }
int me_tagged() { return tag ? 1 : 0; }

object ob_of(string n) {
  object o;
  if (n == "me") return this_object();
  if (n == "env") return environment(this_object());
  if (n == "tp") return this_player();
  if (n == "0") return 0;
  o = master()->lookup(n);
  if (o) return o;
  return find_object(n);
}

void do_op(string op);

void run(string script) {
  string *ops;
  int i;
  if (!script || script == "") return;
  ops = explode(script, ";");
  for (i = 0; i < sizeof(ops); i++)
    do_op(ops[i]);
}

// one nesting level down: "," -> ";", "~" -> ",", "^" -> "~", "|" -> "^", "`" -> "|"
string sub(string s) {
  s = replace_string(s, ",", ";");
  s = replace_string(s, "~", ",");
  s = replace_string(s, "^", "~");
  s = replace_string(s, "|", "^");
  s = replace_string(s, "`", "|");
  return s;
}

void hook(string h) {
  if (scripts && scripts[h]) run(scripts[h]);
}

// deterministic message text for output checks: "[id]" + body of len bytes ending in LF, LF every k bytes
string mkmsg(int id, int len) {
  string alpha, line, s;
  int k, i;
  alpha = "abcdefghijklmnopqrstuvwxyz0123456789";
  k = 7 + id % 13;
  i = id % 36;
  line = (alpha + alpha)[i..i + k - 2] + "\n";
  s = sprintf("[%03d]", id);
  if (len <= 0) return s;
  s += repeat_string(line, len / k + 1)[0..len - 2] + "\n";
  return s;
}

// callbacks for efun-driven frames
string cb_script; int sort_seq; void sort_op(string s);
int run_ret_cb(mixed el, string script) { run(script); return 1; }
int cmp_cb(mixed x, mixed y) { if (cb_script) { string t; t = cb_script; cb_script = 0; run(t); } return x > y ? 1 : (x < y ? -1 : 0); }
mixed fp_target(string script) { run(script); return 7; }
varargs mixed fp_target3(string script, int x, int y) { run(script); return x + y; }
void spread_call(mixed *args) { fp_target3(args...); }
int run_ret1(string script) { run(script); return 1; }
varargs mixed fp_target4(int x, int y, int z, int w) { return x + "," + y + "," + z + "," + w; }
// an expanded argument array followed by an argument whose evaluation runs a script (and may fail)
void spread_call2(int *args, string script) { rec("SPREAD2 " + fp_target4(args..., run_ret1(script))); }
void ed_exit() { rec("EDEXIT " + me()); }
int ed_write_calls;
int ed_write(string fname, int after) { rec("EDWRITE " + me() + " " + after); hook("edw"); return 1; }

int cmd_x(string arg) { rec("X " + me()); hook("x"); return 1; }
// a verb function that declines (returns 0): the driver goes on to the next action for the verb
int cmd_y(string arg) { rec("Y " + me()); hook("y"); return 0; }

void spend(int n) { while (n-- > 0) ; }
void forever() { while (1) ; }
void deep(int n) { if (n > 0) deep(n - 1); }
void deep_forever() { deep_forever(); }
void deep_load(int n, string f) { object o; if (n > 0) { deep_load(n - 1, f); return; } o = load_object(f); if (o) destruct(o); }

void co_fire(string id, string script) {
  rec("CO " + me() + " " + id + " t=" + time());
  run(script);
}
mapping handles;  // call_out id -> handle
void cof0(string id, string script) { co_fire(id, script); }
void cof1(string id, string script) { co_fire(id, script); }
void cof2(string id, string script) { co_fire(id, script); }
void cof3(string id, string script) { co_fire(id, script); }
void cof4(string id, string script) { co_fire(id, script); }
void cof5(string id, string script) { co_fire(id, script); }
void got_input(string s, string script) { rec("INPUT " + me() + " " + s); run(script); }
void got_char(string s, string script) { rec("CHAR " + me() + " " + s); run(script); }
void set_tag(string t) { tag = t; master()->reg(t, this_object()); master()->regname(t, file_name(this_object())); }
void set_hb(int n) { int r; r = set_heart_beat(n); rec("HBSET " + me() + " " + n + " q=" + query_heart_beat(this_object())); }
void set_script(string h, string s) { if (!scripts) scripts = ([ ]); scripts[h] = s; }
void do_move(object dest) { move_object(dest); }
void do_move_str(string dest) { move_object(dest); }

// C08: LPC-visible view of the object world, one record
string wtag(object o) { string t; if (!o) return "0"; t = o->me(); return t ? t : file_name(o); }
void wdump() {
  mapping reg, names; string t, r; object q, x; mixed *h; int i;
  reg = master()->query_registry(); names = master()->query_regnames();
  r = "WDUMP";
  if (reg) foreach (t in sort_array(keys(reg), 1)) {
    q = reg[t];
    if (!q) { r += " " + t + "=0"; continue; }
    r += " " + t + "=1," + wtag(environment(q)) + ",";
    foreach (x in all_inventory(q)) r += wtag(x) + "+";
    r += "," + living(q) + "," + query_heart_beat(q) + "," + (interactive(q) ? 1 : 0);
  }
  // the name an object carries now (a virtual object is renamed by the driver), or the last known name of a dead one
  if (names) foreach (t in sort_array(keys(names), 1)) { string nm; nm = (reg && reg[t]) ? file_name(reg[t]) : names[t]; x = find_object(nm); r += " F:" + t + "=" + nm + "=" + wtag(x); }
  r += " O:"; foreach (x in objects()) r += wtag(x) + "+";
  r += " L:"; foreach (x in livings()) r += wtag(x) + "+";
  r += " U:"; foreach (x in users()) r += wtag(x) + "+";
  if (reg) foreach (t in sort_array(keys(reg), 1)) {
    q = reg[t];
    if (!q) continue;
    h = q->query_held();
    if (!h || !sizeof(h)) continue;
    r += " H:" + t + "=";
    for (i = 0; i < sizeof(h); i++) r += (objectp(h[i]) ? wtag(h[i]) : "0") + "+";
  }
  rec(r);
}
mixed *query_held() { return held; }

// object-world operations (C08)
void wop(string *a) {
  string v; object o;
  v = a[0];
  switch (v) {
  case "wclone":  // wclone <file> <tag>
  case "wload":   // wload <file> <tag>
    {
      mixed e; object q;
      a[2] = master()->fresh_tag(a[2]);   // a hook that fires again makes a fresh tag
      if (v == "wclone") e = catch(q = clone_object(a[1])); else e = catch(q = load_object(a[1]));
      if (q && !q->me_tagged()) q->set_tag(a[2]);
      rec("WNEW " + a[2] + " " + v + " " + a[1] + " ok=" + (q ? file_name(q) : "0") + " tag=" + (q ? q->me() : "0") + " err=" + (e ? 1 : 0));
    }
    break;
  case "whold":   // whold <ob>: keep a reference to <ob> in this object
    o = ob_of(a[1]);
    if (!held) held = ({ });
    if (o) { held += ({ o }); rec("HOLD " + me() + " " + o->me()); }
    break;
  case "wdump":
    wdump();
    break;
  case "walk":    // ask the simulator to walk the driver's object structures right now
    rec("WALK " + me());
    break;
  case "lname":   // lname <name>: set_living_name
    set_living_name(a[1]);
    break;
  case "wmove":   // wmove <what> <dest>: move_object with a record of the outcome
    {
      mixed e; object d;
      o = ob_of(a[1]); d = ob_of(a[2]);
      if (o && d) { e = catch(o->do_move(d)); rec("WMOVE " + a[1] + " " + a[2] + " err=" + (e ? 1 : 0)); }
      else rec("WMOVE " + a[1] + " " + a[2] + " skip");
    }
    break;
  case "wvol":    // wvol <n> <how> <tag>: a virtual object whose name has n letters (too long for a command line), loaded and printed
    {
      mixed e; object q; string nm;
      nm = "/v/" + repeat_string("a", to_int(a[1]));
      master()->set_vo(nm, a[2]);
      a[3] = master()->fresh_tag(a[3]);
      e = catch(q = load_object(nm));
      if (q && !q->me_tagged()) q->set_tag(a[3]);
      rec("WNEW " + a[3] + " wload " + nm + " ok=" + (q ? file_name(q) : "0") + " tag=" + (q ? q->me() : "0") + " err=" + (e ? 1 : 0));
      if (q) { write(q); write("\n"); }
    }
    break;
  case "wvo":     // wvo <name> <how>: what master::compile_object answers for the virtual name
    master()->set_vo(a[1], a[2]);
    break;
  case "wmoves":  // wmoves <what> <file>: move_object with a file name as destination (loads it when needed)
    {
      mixed e;
      o = ob_of(a[1]);
      if (o) { e = catch(o->do_move_str(a[2])); rec("WMOVES " + a[1] + " " + a[2] + " err=" + (e ? 1 : 0)); }
    }
    break;
  case "wdest":   // wdest <ob>
    o = ob_of(a[1]);
    if (o) { string t; mixed e; t = o->me(); rec("WDEST " + t); e = catch(destruct(o)); rec("WDESTDONE " + t + " err=" + (e ? 1 : 0)); }
    else rec("WDEST 0");
    break;
  }
}

// C06: value plumbing. slots: name -> value kept alive by this object
mapping slots;
class CK { mixed b; int a; mixed c; }
void take(string k, mixed v) { if (!slots) slots = ([ ]); slots[k] = v; }
void co_val(mixed v, string k) { rec("COVAL " + me() + " " + k); }
void got_val(string line, mixed v, string k) { rec("GOTVAL " + me() + " " + k); }
void got_val_err(string line, mixed v, string k) { rec("GOTVALERR " + me() + " " + k); error("input_to callback fails\n"); }
int act_val(string arg) { rec("ACTVAL " + me()); return 1; }
int cmp_val(mixed x, mixed y) { return 1; }
string vsum(mixed v) {
  if (arrayp(v)) return "A" + sizeof(v) + (sizeof(v) ? ":" + vsum(v[0]) + ":" + vsum(v[<1]) : "");
  if (mapp(v)) return "M" + sizeof(v);
  if (stringp(v)) return "S" + strlen(v) + ":" + v[0..7];
  if (bufferp(v)) return "B" + sizeof(v);
  if (objectp(v)) return "O";
  if (functionp(v)) return "F";
  if (classp(v)) return "C";
  if (intp(v)) return "I" + v;
  return "?";
}
mixed mkval(string kind, int n, string k) {
  mixed v; int i; class CK c;
  switch (kind) {
  case "arr": v = allocate(n); for (i = 0; i < n; i++) { if (i & 1) v[i] = "tok" + k + i; else v[i] = i; } return v;
  case "map": v = ([ ]); for (i = 0; i < n; i++) v["key" + k + i] = ({ i, "val" + i }); return v;
  case "str": return "S" + k + repeat_string("xy", n);
  case "buf": return allocate_buffer(n + 1);
  case "cls": c = new(class CK); c->a = n; c->b = ({ "in class " + k }); c->c = ([ k : n ]); return c;
  case "fp": return (: fp_target :);
  case "fpb": return (: fp_target, "rec bound" + k :);
  case "fpl": return (: $1 + 1 :);
  case "fpa": return function(int x) { return x + 1; };
  case "nest": v = ({ "leaf" + k }); for (i = 0; i < n; i++) v = ({ v, ([ "d" + i : v ]) }); return v;
  case "obj": return new("/vobj");
  }
  return 0;
}
void cop(string *a) {
  string v; object o; mixed x, y, e; int i, n;
  v = a[0];
  if (!slots) slots = ([ ]);
  switch (v) {
  case "mk":      // mk <slot> <kind> <n>
    slots[a[1]] = mkval(a[2], to_int(a[3]), a[1]);
    break;
  case "mkown":   // mkown <slot> <k>: the value is made by an object of a program nobody else uses; that object goes at once
    o = load_object("/fown");
    slots[a[1]] = o->mkf(to_int(a[2]));
    destruct(o);
    break;
  case "put":     // put <a> <b>: store the value of slot b inside the container in slot a
    x = slots[a[1]]; y = slots[a[2]];
    if (arrayp(x) && sizeof(x)) x[0] = y;
    else if (mapp(x)) x["put" + a[2]] = y;
    else if (classp(x)) ((class CK)x)->b = y;
    break;
  case "cyc":     // cyc <a>: make the container refer to itself (must be undone with uncyc before it is dropped)
    x = slots[a[1]];
    if (arrayp(x) && sizeof(x)) x[<1] = x; else if (mapp(x)) x["self"] = x;
    break;
  case "uncyc":
    x = slots[a[1]];
    if (arrayp(x) && sizeof(x)) x[<1] = 0; else if (mapp(x)) map_delete(x, "self");
    break;
  case "share":   // share <a> <ob>
    o = ob_of(a[2]);
    if (o) o->take(a[1], slots[a[1]]);
    break;
  case "cov":     // cov <a> <delay>: the value travels as a call_out argument
    call_out("co_val", to_int(a[2]), slots[a[1]], a[1]);
    break;
  case "covf":    // covf <a> <delay>: the same through a function-pointer call_out (kept by handle)
    if (!handles) handles = ([ ]);
    handles["v" + sizeof(handles)] = call_out((: co_val :), to_int(a[2]), slots[a[1]], a[1]);
    break;
  case "itv":     // itv <a>: the value travels as an input_to carry-over argument
    input_to("got_val", 0, slots[a[1]], a[1]);
    break;
  case "itve":    // itve <a>: the same, and the callback ends in an error
    input_to("got_val_err", 0, slots[a[1]], a[1]);
    break;
  case "drop":
    map_delete(slots, a[1]);
    break;
  case "clearall":
    slots = 0; held = 0; cb_script = 0;
    break;
  case "rb":      // rb <a>: read the value back
    rec("RB " + me() + " " + a[1] + " " + vsum(slots[a[1]]));
    break;
  case "many":    // many <a> <n> <k>: k arrays of n slots, every slot referring to the value of slot a
    x = allocate(to_int(a[3]));
    for (i = 0; i < sizeof(x); i++) { x[i] = allocate(to_int(a[2])); for (n = 0; n < sizeof(x[i]); n++) x[i][n] = slots[a[1]]; }
    slots["many" + a[1]] = x;
    break;
  case "use":     // use <a> <how>: pass the value through efuns and operators that make temporaries
    x = slots[a[1]];
    switch (a[2]) {
    case "copy": y = copy(x); break;
    case "add": if (arrayp(x)) y = x + x; else if (mapp(x)) y = x + ([ "q" : x ]); else if (stringp(x)) y = x + x; break;
    case "sub": if (arrayp(x)) y = x - x[0..0]; break;
    case "and": if (arrayp(x)) y = x & x[0..1]; break;
    case "slice": if (arrayp(x) || stringp(x)) y = x[1..<2]; break;
    case "sort": if (arrayp(x)) y = sort_array(x, "cmp_val", this_object()); break;
    case "filter": if (arrayp(x)) y = filter_array(x, (: stringp($1) :)); else if (mapp(x)) y = filter_mapping(x, (: 1 :)); break;
    case "map": if (arrayp(x)) y = map_array(x, (: ({ $1 }) :)); else if (mapp(x)) y = map_mapping(x, (: $2 :)); break;
    case "keys": if (mapp(x)) y = keys(x) + values(x); break;
    case "sprintf": y = sprintf("%O %d", x, 7); break;
    case "save": y = save_variable(x); if (y) y = restore_variable(y); break;
    case "savecut1": case "savecut2": case "savecut3":   // restore a text that stops in the middle of the value (an LPC error, or a shorter value)
      y = save_variable(x);
      if (stringp(y) && strlen(y) > 4) { n = strlen(y); n = a[2] == "savecut1" ? n / 3 : (a[2] == "savecut2" ? n * 2 / 3 : n - 3); e = y[0..n]; y = 0; catch(y = restore_variable(e)); }
      break;
    case "restdup":   // a save file that names the same variable twice
      y = save_variable(x);
      if (stringp(y)) { load_object("/rdobj")->go(y); y = 0; }
      break;
    case "implode": if (arrayp(x)) y = explode(implode(filter_array(x, (: stringp($1) :)), ","), ","); break;
    case "foreach": if (arrayp(x)) foreach (e in x) y = e; else if (mapp(x)) foreach (e, y in x) n++; break;
    case "eval": if (functionp(x)) y = catch(evaluate(x, 1)); break;
    case "catch": if (stringp(x)) y = catch(error(x)); else y = catch(error("err with value on the stack\n")); break;
    case "throw": y = catch(throw(x)); break;
    case "member": if (arrayp(x)) n = member_array(x[<1], x); break;
    case "unique": if (arrayp(x)) y = unique_array(x, (: stringp($1) :)); break;
    case "alloc": y = allocate_mapping(x ? 3 : 4); y[x] = x; break;
    case "err": filter_array(({ x, x }), (: error("boom in callback\n") :)); break;
    case "deep": y = ({ x, ({ x, ({ x }) }) }); y = deep_inventory(this_object()); break;
    }
    break;
  case "memstat":
    rec("MEMSTAT " + (sizeof(a) > 1 ? a[1] : ""));
    break;
  case "pinfo":   // pinfo <file>: structural description of a loaded program
    o = find_object(a[1]);
    if (!o) rec("PINFO " + a[1] + " none");
    else {
      string d; int h;
      catch(dump_prog(o, 3, "/pdump.txt"));
      d = read_file("/pdump.txt");
      if (!d) d = "";
      // address-dependent parts are taken out before the checksum: the order column of the function table (sorted by the
      // address of the shared name string), the raw code bytes (string switch tables hold string addresses) and the order of
      // string switch table entries (sorted by address; they are summed order-independently)
      {
        string l, *tk; int hu, hl, k;
        h = 0; hu = 0; n = 0;
        foreach (l in explode(d, "\n")) {
          tk = filter_array(explode(replace_string(l, "\t", " "), " "), (: $1 != "" :));
          if (!sizeof(tk)) continue;
          if (sizeof(tk) >= 4 && tk[0][<1] == ':' && to_int(tk[2]) + "" == tk[2]) tk[2] = "#";
          if (strlen(l) > 6 && l[0] == '\t' && l[5] == ':') continue;
          l = implode(tk, " ");
          hl = 7;
          for (k = 0; k < strlen(l); k++) hl = (hl * 131 + l[k]) % 1000000007;
          n++;
          if (tk[0][0] == '"' && sizeof(tk) == 2) hu = (hu + hl) % 1000000007;
          else h = (h * 31 + hl) % 1000000007;
        }
        h = (h + hu) % 1000000007;
      }
      rec("PINFO " + a[1] + " fn=" + implode(sort_array(functions(o, 0), 1), ",") + " var=" + implode(variables(o, 0), ",") + " inh=" + implode(inherit_list(o), ",") + " dump=" + n + ":" + h);
    }
    break;
  case "pdump":   // pdump <file>: the whole program dump, one record per line (for looking at a replay)
    o = find_object(a[1]);
    if (o) { string d, l; catch(dump_prog(o, 3, "/pdump.txt")); d = read_file("/pdump.txt"); if (d) foreach (l in explode(d, "\n")) rec("PD " + l); }
    break;
  case "dkids":   // destruct every clone of /vobj that is not one of the permanent w* helpers (also half-created ones)
    foreach (o in children("/vobj")) { string t; t = o->me(); if (o != find_object("/vobj") && (strlen(t) < 2 || t[0] != 'w' || t[1] < '0' || t[1] > '9')) destruct(o); }
    o = find_object("/fown"); if (o) destruct(o);
    break;
  case "dslot":   // dslot <a>: destruct the object held in the slot
    if (objectp(slots[a[1]])) destruct(slots[a[1]]);
    break;
  case "rcall":   // remove every pending call_out of this object that carries a value
    while (remove_call_out("co_val") != -1) n++;
    if (handles) { foreach (v in keys(handles)) if (v[0] == 'v') { remove_call_out(handles[v]); map_delete(handles, v); } }
    break;
  }
}

// call and compile operations (C07, C02)
void xop(string *a) {
  string v; object o; mixed e;
  v = a[0];
  switch (v) {
  case "coinfo":  // coinfo: the driver's list of pending call_outs as one record (function:delay)
    {
      mixed *ci; string r; int i;
      ci = call_out_info(); r = "COINFO " + me() + " t=" + time();
      for (i = 0; i < sizeof(ci); i++) r += " " + ci[i][1] + ":" + ci[i][2] + ":" + (sizeof(ci[i]) > 3 && stringp(ci[i][3]) ? ci[i][3] : "-");
      rec(r);
    }
    break;
  case "xco":     // xco <id> <ob> <fn> [arg]: call_other from this object; the outcome is one record
    {
      mixed r;
      e = 0;
      o = find_object(a[2]);
      if (!o) e = catch(o = load_object(a[2]));
      if (o) { if (sizeof(a) > 4) e = catch(r = call_other(o, a[3], a[4])); else e = catch(r = call_other(o, a[3])); }
      rec("XR " + a[1] + " " + (e ? "err:" + replace_string(replace_string(e, "\n", ""), " ", "_") : (stringp(r) ? replace_string(replace_string(r, "\n", "\\n"), " ", "_") : (intp(r) ? "int:" + r : "other"))));
    }
    break;
  case "comp":    // comp <id> <file>: compile a file (load_object), report, and destruct what was loaded
    {
      object q;
      e = catch(q = load_object(a[2]));
      rec("COMP " + a[1] + " " + a[2] + " ok=" + (q ? 1 : 0) + " err=" + (e ? replace_string(replace_string(e, "\n", ""), " ", "_")[0..80] : "0"));
      if (q) destruct(q);
      q = find_object(a[2]);
      if (q) destruct(q);
    }
    break;
  case "xsco":    // xsco <id> <file> <fn> [arg]: call_other on a FILE NAME (the driver finds or loads the object itself)
    {
      mixed r;
      if (sizeof(a) > 4) e = catch(r = call_other(a[2], a[3], a[4])); else e = catch(r = call_other(a[2], a[3]));
      rec("XR " + a[1] + " " + (e ? "err:" + replace_string(replace_string(e, "\n", ""), " ", "_") : (stringp(r) ? replace_string(replace_string(r, "\n", "\\n"), " ", "_") : (intp(r) ? "int:" + r : "other"))));
    }
    break;
  case "xsaco":   // xsaco <id> <fn> <file> <file> ...: the array form of call_other with file names
    {
      mixed r; string res; int k;
      e = catch(r = call_other(a[3..], a[2]));
      res = "";
      if (arrayp(r)) for (k = 0; k < sizeof(r); k++) res += (k ? "," : "") + (stringp(r[k]) ? r[k] : (intp(r[k]) ? "int:" + r[k] : "other"));
      rec("XR " + a[1] + " " + (e ? "err:" + replace_string(replace_string(e, "\n", ""), " ", "_") : "arr:" + res));
    }
    break;
  case "xaco":    // xaco <id> <fn> <ob> <ob> ...: the array form of call_other
    {
      mixed r; object *obs; string res; int k;
      obs = ({ }); e = 0;
      for (k = 3; k < sizeof(a); k++) { o = find_object(a[k]); if (!o) catch(o = load_object(a[k])); if (o) obs += ({ o }); }
      e = catch(r = call_other(obs, a[2]));
      res = "";
      if (arrayp(r)) for (k = 0; k < sizeof(r); k++) res += (k ? "," : "") + (stringp(r[k]) ? r[k] : (intp(r[k]) ? "int:" + r[k] : "other"));
      rec("XR " + a[1] + " " + (e ? "err:" + replace_string(replace_string(e, "\n", ""), " ", "_") : "arr:" + res));
    }
    break;
  case "reload":  // reload <ob>: reload_object() - variables reset, create() again, heart beat off, call_outs dropped
    o = ob_of(a[1]);
    if (o) { rec("RELOAD " + wtag(o)); e = catch(reload_object(o)); rec("RELOADED " + (e ? "err" : "ok")); }
    break;
  case "xreload": // xreload <ob>: destruct the blueprint, the next call loads it again (new program)
    o = find_object(a[1]);
    if (o) destruct(o);
    break;
  }
}

// efun callback frames; the result of each efun is recorded: it does not depend on what the callbacks' scripts do, so a
// caught error inside a callback (possibly inside a nested efun of the same kind) must not change it
string nf_cb2(string script) { rec("NFCB2 " + me()); run(script); return "NFMSG2 " + me() + "\n"; }
void eop(string *a) {
  mixed r; int n;
  switch (a[0]) {
  case "dload":   // dload <file> <max>: load (compile) an object from every call depth up to and beyond the deepest possible one
    for (n = 0; n < to_int(a[2]); n++) r = catch(deep_load(n, a[1]));
    rec("DLOAD " + me());
    break;
  case "itn":     // itn <it|gc>: input_to()/get_char() naming a function that does not exist (the efun raises an error)
    if (a[1] == "gc") r = catch(get_char("no_such_function_zz")); else r = catch(input_to("no_such_function_zz"));
    rec("ITN " + me() + " " + (r ? "err" : "ok"));
    break;
  case "nfs":     // nfs <text>: notify_fail(string) - also from inside a notify_fail function that is running
    notify_fail(implode(a[1..], " ") + "\n");
    rec("NFS " + me());
    break;
  case "nff":     // nff <script>: notify_fail(function)
    notify_fail((: nf_cb2, sub(implode(a[1..], " ")) :));
    rec("NFF " + me());
    break;
  case "filter":  // filter <n> <script>
    n = to_int(a[1]);
    r = filter(allocate(n), "run_ret_cb", this_object(), sub(implode(a[2..], " ")));
    rec("EFRES filter " + (sizeof(r) == n ? "ok" : sizeof(r) + "/" + n));
    break;
  case "map":
    n = to_int(a[1]);
    r = map(allocate(n), (: run_ret_cb($1, $2) :), sub(implode(a[2..], " ")));
    rec("EFRES map " + (sizeof(r) == n && sizeof(r - ({ 1 })) == 0 ? "ok" : save_variable(r)));
    break;
  case "exec":    // exec [dest]: move this connection to a fresh user object (exec efun); "exec dest" destructs the old body
    {
      object nb; string oldname;
      nb = new(explode(file_name(this_object()), "#")[0]); oldname = me();
      rec("EXEC " + oldname + " " + file_name(nb));
      if (exec(nb, this_object())) {
        // with "dest" the old body goes away: for the logs it is destructed first, then its tag is given to the new body
        if (sizeof(a) > 1 && a[1] == "dest") rec("DEST " + oldname);
        nb->after_exec(tag, oldname);
        if (sizeof(a) > 1 && a[1] == "dest") destruct(this_object());
      }
    }
    break;
  case "snoop":   // snoop <ob|0>: this user starts (or with 0 stops) snooping
    {
      mixed e2; object who;
      who = a[1] == "0" ? 0 : ob_of(a[1]);
      if (who) e2 = catch(r = snoop(this_object(), who)); else e2 = catch(r = snoop(this_object()));
      rec("SNOOPSET " + me() + " " + a[1] + " " + (e2 ? "err" : (r ? "1" : "0")));
    }
    break;
  case "parse":   // parse: parse_command() over this object's inventory (each object's id-list apply runs its "pid" hook)
    {
      mixed r1, r2; int ok;
      ok = parse_command("get red ball from balls", all_inventory(this_object()), " 'get' %i 'from' %i ", r1, r2);
      rec("PARSED " + ok + " " + (arrayp(r1) ? sizeof(r1) : -1));
    }
    break;
  case "sort":
    // (two lines kept so that the line numbers below stay what stored signatures name)
    // the sort itself is in sort_op() at the end of the file
    sort_op(sub(implode(a[1..], " ")));
    break;
  }
}

// uid operations (separate function: the command interpreter is at the local variable limit)
void uop(string *a) {
  string v; object o;
  v = a[0];
  switch (v) {
  case "uclone":
  case "uload":
    {
      mixed e; object q;
      rec("UNEW " + v + " " + me() + " " + a[1] + " " + a[2]);
      if (v == "uclone") e = catch(q = clone_object(a[1])); else e = catch(q = load_object(a[1]));
      if (q) q->set_tag(a[2]);
      rec("UNEWDONE " + a[2] + " ok=" + (q ? 1 : 0) + " err=" + (e ? replace_string(e, "\n", "") : "0"));
    }
    break;
  case "useteuid": // useteuid <name|0>
    {
      mixed e, r;
      if (a[1] == "me") a[1] = getuid(this_object());
      if (a[1] == "0") e = catch(r = seteuid(0)); else e = catch(r = seteuid(a[1]));
      rec("USETEUID " + me() + " " + a[1] + " ret=" + r + " err=" + (e ? 1 : 0));
    }
    break;
  case "uexport": // uexport <target>
    {
      mixed e, r;
      o = ob_of(a[1]);
      if (o) { e = catch(r = export_uid(o)); rec("UEXPORT " + me() + " " + a[1] + " ret=" + r + " err=" + (e ? 1 : 0)); }
    }
    break;
  case "uids":    // dump uid/euid of every registered object and of the blueprints
    {
      mapping reg; string t, r2; object q;
      reg = master()->query_registry(); r2 = "";
      if (reg) foreach (t in sort_array(keys(reg), 1)) { q = reg[t]; if (q) r2 += " " + t + ":" + getuid(q) + ":" + (geteuid(q) ? geteuid(q) : "0"); }
      foreach (t in ({ "/u/a", "/u/b", "/u/c", "/u/d", "/u/e", "/uobj" })) { q = find_object(t); if (q) r2 += " " + t + ":" + getuid(q) + ":" + (geteuid(q) ? geteuid(q) : "0"); }
      r2 += " M:" + getuid(master()) + ":" + (geteuid(master()) ? geteuid(master()) : "0");
      rec("UIDS" + r2);
    }
    break;
  case "ucall":   // ucall <file>: implicit load through call_other on a file name
    {
      mixed e, r;
      rec("UNEW ucall " + me() + " " + a[1] + " -");
      // every efun that accepts a file name in place of an object loads it on demand
      switch (sizeof(a) > 2 ? a[2] : "co") {
      case "aco": e = catch(r = call_other(({ a[1] }), "query_nothing")); break;
      case "move": e = catch(move_object(a[1])); break;
      case "tellroom": e = catch(tell_room(a[1], "")); break;
      case "filter": e = catch(r = filter_array(({ 1 }), "query_nothing", a[1])); break;
      case "mapstr": e = catch(r = map("x", "query_nothing", a[1])); break;
      case "message": e = catch(message("c20", "", a[1])); break;
      case "find1": e = catch(r = find_object(a[1], 1)); break;
      default: e = catch(r = call_other(a[1], "query_nothing"));
      }
      rec("UNEWDONE - ok=" + (find_object(a[1]) ? 1 : 0) + " err=" + (e ? replace_string(e, "\n", "") : "0"));
    }
    break;
  case "uvo":     // uvo <name>: from now on the master serves <name> as a virtual object (a fresh /uobj clone)
    master()->set_vo(a[1], "uclone");
    break;
  case "ucf":     // ucf <file> <answer>: change the master's creator_file policy
    master()->set_cf(a[1], a[2]);
    break;
  case "uvs":     // uvs <uid> <answer>
    master()->set_vs(a[1], a[2]);
    break;
  case "umclone": // umclone <file> <tag> <drop>: the master clones (drop=1: with its euid set to 0 first)
    master()->m_clone(a[1], a[2], to_int(a[3]));
    break;
  case "uvb":     // uvb <answer>: what the master's valid_bind() says from now on (1, 0, E)
    master()->set_vb(a[1]);
    break;
  case "ubind":   // ubind <owner> seteuid <name|0|me> | ubind <owner> export <target>: an efun pointer made here, bound to <owner>, evaluated
    {
      mixed e, r; function f; object t2;
      o = ob_of(a[1]);
      if (!o) break;
      if (a[2] == "export") { t2 = ob_of(a[3]); if (!t2) break; }
      else if (a[3] == "me") a[3] = getuid(this_object());
      rec("UBIND " + me() + " " + a[1] + " same=" + (o == this_object() ? 1 : 0));
      if (a[2] == "export") e = catch(f = bind((: export_uid, t2 :), o));
      else if (a[3] == "0") e = catch(f = bind((: seteuid, 0 :), o));
      else e = catch(f = bind((: seteuid, a[3] :), o));
      rec("UBINDDONE " + me() + " " + a[1] + " bound=" + (e ? 0 : 1));
      if (e) break;
      e = catch(r = evaluate(f));
      // what the bound pointer did, it did as its owner: the records are those of the owner's own call
      if (a[2] == "export") rec("UEXPORT " + a[1] + " " + a[3] + " ret=" + r + " err=" + (e ? 1 : 0));
      else rec("USETEUID " + a[1] + " " + a[3] + " ret=" + r + " err=" + (e ? 1 : 0));
    }
    break;
  }
}

void do_op(string op) {
  string *a;
  string v;
  object o;
  int n;
  while (strlen(op) && op[0] == ' ') op = op[1..];
  a = explode(op, " ");
  if (!sizeof(a)) return;
  v = a[0];
  switch (v) {
  case "echo":
    tell_object(this_object(), implode(a[1..], " ") + "\n");
    break;
  case "write":
    write(implode(a[1..], " ") + "\n");
    break;
  case "out":     // out <id> <len> <how> [target]: emit a deterministic message through one of the output efuns
    {
      string m;
      m = mkmsg(to_int(a[1]), to_int(a[2]));
      o = sizeof(a) > 4 ? ob_of(a[4]) : this_object();
      if (a[3] == "write" || a[3] == "printf") o = this_player();
      if (a[3] == "receive") o = this_object();
      if (a[3] != "shout") rec("OUT " + (o ? o->me() : "0") + " " + a[1] + " " + a[2] + " " + a[3]);
      if (a[3] == "shout") {
        // one message to every other user: one OUT record per recipient, written before the efun runs
        object u;
        foreach (u in users()) if (u != this_player() && environment(u)) rec("OUT " + u->me() + " " + a[1] + " " + a[2] + " shout");   // shout reaches listeners that are somewhere
      }
      switch (a[3]) {
      case "shout": shout(m); break;
      case "write": write(m); break;
      case "tell": tell_object(o, m); break;
      case "printf": printf("%s", m); break;
      case "receive": receive(m); break;
      default: tell_object(o, m);
      }
      rec("OUTDONE " + a[1]);
    }
    break;
  case "tell":    // tell <ob> text
    o = ob_of(a[1]);
    if (o) tell_object(o, implode(a[2..], " ") + "\n");
    break;
  case "rec":
    rec("U " + me() + " " + implode(a[1..], " "));
    break;
  case "name":
    set_tag(a[1]);
    rec("NAME " + a[1] + " " + file_name(this_object()));
    break;
  case "err":
    error("bomb " + implode(a[1..], " ") + "\n");
    break;
  case "bomb":    // bomb <id> <how>: record and fail in one op
    rec("U " + me() + " B" + a[1]);
    switch (sizeof(a) > 2 ? a[2] : "err") {
    case "typeerr": n = 1; n = n + (mixed)({ }); break;
    case "forever": forever(); break;
    case "deepforever": deep_forever(); break;
    case "throw": throw("thrown " + a[1]); break;
    default: error("bomb " + a[1] + "\n");
    }
    break;
  case "throw":
    throw("thrown " + implode(a[1..], " "));
    break;
  case "typeerr":
    n = 1; n = n + (mixed)({ });
    break;
  case "spend":
    spend(to_int(a[1]));
    break;
  case "forever":
    forever();
    break;
  case "deep":
    deep(to_int(a[1]));
    break;
  case "deepforever":
    deep_forever();
    break;
  case "hb":      // hb <ob> <n>
    o = ob_of(a[1]);
    if (o) o->set_hb(to_int(a[2]));
    break;
  case "sc":      // sc <ob> <hook> <script with , for ;>
    o = ob_of(a[1]);
    if (o) o->set_script(a[2], sub(implode(a[3..], " ")));
    break;
  case "co":      // co <id> <delay> <script with , instead of ;>
    if (!handles) handles = ([ ]);
    n = call_out("co_fire", to_int(a[2]), a[1], sub(implode(a[3..], " ")));
    handles[a[1]] = n;
    rec("COSET " + me() + " " + a[1] + " d=" + a[2] + " h=" + n + " t=" + time() + " fn=x");
    break;
  case "con":     // con <id> <delay> <fn 0-5> <script>: call_out by function name cof<fn>
    if (!handles) handles = ([ ]);
    n = call_out("cof" + a[3], to_int(a[2]), a[1], sub(implode(a[4..], " ")));
    handles[a[1]] = n;
    rec("COSET " + me() + " " + a[1] + " d=" + a[2] + " h=" + n + " t=" + time() + " fn=" + a[3]);
    break;
  case "cofp":    // cofp <id> <delay> <script>: call_out with a function pointer
    if (!handles) handles = ([ ]);
    n = call_out((: co_fire :), to_int(a[2]), a[1], sub(implode(a[3..], " ")));
    handles[a[1]] = n;
    rec("COSET " + me() + " " + a[1] + " d=" + a[2] + " h=" + n + " t=" + time() + " fn=fp");
    break;
  case "rch":     // rch <id>: remove_call_out by handle
    n = (handles && handles[a[1]]) ? remove_call_out(handles[a[1]]) : -99999;
    rec("RCO " + me() + " " + a[1] + " ret=" + n + " t=" + time());
    break;
  case "fch":     // fch <id>: find_call_out by handle
    n = (handles && handles[a[1]]) ? find_call_out(handles[a[1]]) : -99999;
    rec("FCO " + me() + " " + a[1] + " ret=" + n + " t=" + time());
    break;
  case "rcn":     // rcn <fn>: remove_call_out by name
    n = remove_call_out("cof" + a[1]);
    rec("RCN " + me() + " " + a[1] + " ret=" + n + " t=" + time());
    break;
  case "fcn":
    n = find_call_out("cof" + a[1]);
    rec("FCN " + me() + " " + a[1] + " ret=" + n + " t=" + time());
    break;
  case "fp":      // fp <script>: call through a function pointer
    evaluate((: fp_target :), sub(implode(a[1..], " ")));
    break;
  case "fpb":     // fpb <script>: function pointer with a bound argument
    evaluate((: fp_target, sub(implode(a[1..], " ")) :));
    break;
  case "spread":  // spread <script>: call with an argument array expanded by "..."
    spread_call(({ sub(implode(a[1..], " ")), 1, 2 }));
    break;
  case "filter": case "map": case "sort":
    eop(a);
    break;
  case "exec": case "parse": case "snoop": case "nfs": case "nff": case "itn": case "dload":
    eop(a);
    break;
  case "spread2": // spread2 <script>: f(args..., g(script)) - the script runs between the expansion and the call
    spread_call2(({ 5, 6 }), sub(implode(a[1..], " ")));
    break;
  case "catch":   // catch <id> <script>: LPC catch with a frame check afterwards
    {
      mixed r; string to, tp, po, mark; int k;
      // who we are, who called and who the command giver is, by name: a destruct started inside the script wipes object
      // references from the value stack at once, also when a hook aborts it and the object lives on
      to = file_name(this_object()); tp = this_player() ? file_name(this_player()) : "0"; po = previous_object() ? file_name(previous_object()) : "0"; mark = "M" + a[1]; k = 4711;
      rec("CATCHIN " + a[1]);
      r = catch(run(sub(implode(a[2..], " "))));
      // (an object that the script destructed reads as 0 afterwards: that is the script's side effect, not a frame left wrong)
      if (to != file_name(this_object()) || (this_player() && tp != file_name(this_player())) || (previous_object() && po != file_name(previous_object())) || mark != "M" + a[1] || k != 4711)
        rec("CATCHBAD " + a[1] + " " + (to != file_name(this_object()) ? "to" : "") + (this_player() && tp != file_name(this_player()) ? "tp" : "") + (previous_object() && po != file_name(previous_object()) ? "po" : "") + (mark != "M" + a[1] ? "mark" : "") + (k != 4711 ? "k" : ""));
      rec("CATCH " + a[1] + " " + (stringp(r) ? replace_string(r, "\n", "") : (r ? "val:" + typeof(r) : "0")));
    }
    break;
  case "load":    // load <file>: load_object (create() runs inside the load), then destruct it again
    o = load_object(a[1]);
    rec("LOADED " + (o ? 1 : 0));
    if (o) destruct(o);
    break;
  case "ec":      // enable_commands only
    enable_commands();
    break;
  case "addx":    // add_action of this object's "x" to whoever is this_player() (used from init hooks)
    // not between two objects that both have no environment: the driver takes "same (null) environment" for presence there,
    // and destruct has no room to remove the sentence from (DESIGN.md 11.4, observations)
    if (this_object() == this_player() || environment(this_object()) || (this_player() && environment(this_player())))
      add_action("cmd_x", "x");
    break;
  case "reclaim": // reclaim_objects(): every reference to a destructed object, in every object, becomes 0 now
    rec("RECLAIM " + reclaim_objects());
    break;
  case "rmx":     // remove_action of "x" from this_player() (legal anywhere; inside a verb function that returns 0 it is an error)
    catch(remove_action("cmd_x", "x"));
    break;
  case "living":  // make this object a living one with the actions "x" and "y"
    enable_commands();
    add_action("cmd_x", "x");
    add_action("cmd_y", "y");
    break;
  case "rmy":     // remove_action of "y" (from inside cmd_y, which returns 0, the driver has to notice)
    remove_action("cmd_y", "y");
    break;
  case "spin":    // spin <id> <kind>: run a spender that is infinite by construction
    rec("SPIN " + me() + " " + a[1] + " " + a[2]);
    call_other(this_object(), a[2]);
    rec("U " + me() + " SURV" + a[1]);
    break;
  case "cspin":   // cspin <id> <ncatch> <kind>: the same inside 1..3 nested catch
    {
      mixed r;
      rec("SPIN " + me() + " " + a[1] + " " + a[3] + " catch" + a[2]);
      switch (to_int(a[2])) {
      case 1: r = catch(call_other(this_object(), a[3])); break;
      case 2: r = catch(catch(call_other(this_object(), a[3]))); break;
      default: r = catch(catch(catch(call_other(this_object(), a[3])))); break;
      }
      rec("U " + me() + " SURV" + a[1] + " r=" + (stringp(r) ? replace_string(r, "\n", "") : "?"));
    }
    break;
  case "build":   // build <id> <kind>: unbounded builder; the result (or what is left in globals) must respect the limits
    {
      mixed r, val;
      rec("BUILD " + me() + " " + a[1] + " " + a[2]);
      r = catch(val = bd(a[2]));
      rec("BUILT " + a[1] + " " + a[2] + " size=" + vsize(val) + " gs=" + vsize(gs) + " ga=" + vsize(ga) + " gm=" + vsize(gm) + " err=" + (stringp(r) ? replace_string(r, "\n", "") : "0"));
      gs = 0; ga = 0; gm = 0;
    }
    break;
  case "call":    // call <ob> <func> [arg] [arg]: generic call_other with string arguments
    o = ob_of(a[1]);
    if (!o) o = load_object(a[1]);
    if (o) {
      if (sizeof(a) == 3) call_other(o, a[2]);
      else if (sizeof(a) == 4) call_other(o, a[2], a[3]);
      else call_other(o, a[2], a[3], a[4]);
    }
    break;
  case "fe":      // fe <id> <efun> <hexpath> [hexpath2]: file efun with a hostile path, inside catch
    {
      mixed r, e; string p1, p2;
      p1 = master()->unhex(a[3]); p2 = sizeof(a) > 4 ? master()->unhex(a[4]) : 0;
      rec("FE " + a[1] + " " + a[2]);
      switch (a[2]) {
      case "read_file": e = catch(r = read_file(p1)); break;
      case "write_file": e = catch(r = write_file(p1, "data\n")); break;
      case "rm": e = catch(r = rm(p1)); break;
      case "rename": e = catch(r = rename(p1, p2)); break;
      case "cp": e = catch(r = cp(p1, p2)); break;
      case "link": e = catch(r = link(p1, p2)); break;
      case "mkdir": e = catch(r = mkdir(p1)); break;
      case "rmdir": e = catch(r = rmdir(p1)); break;
      case "get_dir": e = catch(r = get_dir(p1)); break;
      case "get_dir2": e = catch(r = get_dir(p1, -1)); break;
      case "stat": e = catch(r = stat(p1)); break;
      case "file_size": e = catch(r = file_size(p1)); break;
      case "file_length": e = catch(r = file_length(p1)); break;
      case "read_bytes": e = catch(r = read_bytes(p1, 0, 10)); break;
      case "write_bytes": e = catch(r = write_bytes(p1, 0, "xy")); break;
      case "read_buffer": e = catch(r = read_buffer(p1, 0, 10)); break;
      case "write_buffer": e = catch(r = write_buffer(p1, 0, "xy")); break;
      case "tail": e = catch(r = tail(p1)); break;
      case "save_object": e = catch(r = save_object(p1)); break;
      case "restore_object": e = catch(r = restore_object(p1)); break;
      case "load_object": e = catch(r = load_object(p1)); break;
      case "clone_object": e = catch(r = clone_object(p1)); break;
      case "find_object": e = catch(r = find_object(p1)); break;
      case "dumpallobj": e = catch(dumpallobj(p1)); break;
      case "dump_prog": e = catch(dump_prog(this_object(), 0, p1)); break;
      case "ed": e = catch(ed(p1, "ed_exit")); break;
      case "edw": e = catch(ed(p1, "ed_write", "ed_exit")); break;   // with a write callback that fails on the second call
      default: rec("BADFE " + a[2]);
      }
      rec("FEDONE " + a[1] + " " + (e ? "err" : (stringp(r) ? "str" : (arrayp(r) ? "arr" : (objectp(r) ? "ob" : "" + r)))));
      if (objectp(r) && r != this_object()) destruct(r);
    }
    break;
  case "wclone": case "wload": case "whold": case "wdump": case "walk": case "lname": case "wmove": case "wmoves": case "wdest": case "wvo": case "wvol":
    wop(a);
    break;
  case "mk": case "mkown": case "put": case "cyc": case "uncyc": case "share": case "cov": case "covf": case "itv": case "itve": case "drop": case "clearall": case "rb": case "many": case "use": case "memstat": case "rcall": case "dslot": case "dkids": case "pinfo": case "pdump":
    cop(a);
    break;
  case "xco": case "xaco": case "xsco": case "xsaco": case "xreload": case "comp": case "coinfo": case "reload":
    xop(a);
    break;
  case "uclone": case "uload": case "useteuid": case "uexport": case "uids": case "ucall": case "ucf": case "uvs": case "umclone": case "uvo": case "uvb": case "ubind":
    uop(a);
    break;
  case "setcs":   // setcs <script>: the next vobj created runs this script inside create()
    master()->set_create_script(sub(implode(a[1..], " ")));
    break;
  case "present": // present <ob>: id() applies in the inventory of <ob>
    o = ob_of(a[1]);
    if (o) present("zz-nothing", o);
    break;
  case "say":
    say(implode(a[1..], " ") + "\n");
    break;
  case "probe":   // fixed evaluation whose records must not depend on what failed before
    {
      mixed r; object q;
      master()->take_create_script();   // side effects of the failed evaluation must not leak into the probe
      r = catch(error("probe-err\n")); rec("PROBE catch=" + (stringp(r) ? replace_string(r, "\n", "") : "?"));
      r = catch(throw(({ 1, 2 }))); rec("PROBE throw=" + (arrayp(r) ? sizeof(r) : -1));
      r = catch(deep(6)); rec("PROBE deep=" + (r ? 1 : 0));
      q = load_object("/pl1"); rec("PROBE load=" + (q ? 1 : 0)); if (q) destruct(q);
      q = find_object("/pl2"); if (q) destruct(q);
      q = find_object("/pl3"); if (q) destruct(q);
      q = new("/vobj"); rec("PROBE clone=" + (q ? 1 : 0));
      if (q) { q->do_move(this_object()); rec("PROBE env=" + (environment(q) == this_object())); }
      rec("PROBE present=" + (q && present(q, this_object()) ? 1 : 0));
      if (q) destruct(q);
      rec("PROBE dest=" + (q ? 1 : 0));
      rec("PROBE tp=" + (this_player() == this_object()) + " to=" + (this_object() ? 1 : 0));
      r = catch(filter(({ 1, 2, 3 }), (: $1 > 1 :))); rec("PROBE filter=" + (r ? 1 : 0));
    }
    break;
  case "at":      // at <n> <op...>: only on the n-th heart beat of this object
    if (this_object()->query_n_hb() == to_int(a[1])) do_op(implode(a[2..], " "));
    break;
  case "hbs":     // record heart_beats() as seen by LPC
    {
      object *hl; string r; int k;
      hl = heart_beats(); r = "";
      for (k = 0; k < sizeof(hl); k++) r += " " + (hl[k] ? hl[k]->me() : "0") + ":" + query_heart_beat(hl[k]);
      rec("HBS" + r);
    }
    break;
  case "as":      // as <ob> <script>: run a script as another object
    o = ob_of(a[1]);
    if (o) o->run(sub(implode(a[2..], " ")));
    break;
  case "clone":   // clone <file> [tag]
    o = new(a[1]);
    if (o && sizeof(a) > 2) o->set_tag(a[2]);
    rec("CLONED " + (o ? o->me() : "0"));
    break;
  case "dest":
    o = ob_of(a[1]);
    rec("DEST " + (o ? o->me() : "0"));
    if (o) destruct(o);
    break;
  case "quit":
    rec("QUIT " + me());
    destruct(this_object());
    break;
  case "rmi":     // remove_interactive
    o = ob_of(a[1]);
    rec("RMI " + (o ? o->me() : "0"));
    if (o) remove_interactive(o);
    break;
  case "move":    // move <what> <dest>
    o = ob_of(a[1]);
    if (o) o->do_move(ob_of(a[2]));
    break;
  case "cmd":     // command(...) on this object
    command(implode(a[1..], " "));
    break;
  case "flush":
    flush_messages();
    break;
  case "shutdown":
    shutdown();
    break;
  case "inputto": // inputto <flags> <script>
    input_to("got_input", to_int(a[1]), sub(implode(a[2..], " ")));
    break;
  case "gcl":     // perpetual single-character mode: every character re-arms get_char
    get_char("got_char", 0, "gcl");
    break;
  case "getchar":
    get_char("got_char", to_int(a[1]), sub(implode(a[2..], " ")));
    break;
  default:
    rec("BADOP " + op);
  }
}

// sort <script>: consecutive sorts take turns between an ascending and a descending comparison function, so a sort nested in
// the comparison of another one never has the callback of the one around it: a sort that goes on with the wrong callback after
// an error was caught inside its comparison returns the wrong order
int cmp_cb_desc(mixed x, mixed y) { if (cb_script) { string t; t = cb_script; cb_script = 0; run(t); } return x < y ? 1 : (x > y ? -1 : 0); }
void sort_op(string s) {
  int dir; mixed r;
  dir = (sort_seq++) & 1;
  cb_script = s;
  r = sort_array(({ 3, 1, 2, 5, 4 }), dir ? "cmp_cb_desc" : "cmp_cb", this_object());
  rec("EFRES sort " + (save_variable(r) == (dir ? "({5,4,3,2,1,})" : "({1,2,3,4,5,})") ? "ok" : save_variable(r)));
}
