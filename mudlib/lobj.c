// object loaded (not cloned) by scenarios: create() runs the pending create script
inherit "/script";
void create() { string cs; cs = master()->take_create_script(); if (cs) run(cs); }
