// restores itself from a save file that names its one variable twice (C06); nothing else lives here, so clearing all
// variables before the restore loses nothing
mixed rvar;
void go(string text) {
  write_file("/rdup.o", "#/rdobj.c\nrvar " + text + "\nrvar " + text + "\n", 1);
  catch(restore_object("/rdup"));
  rvar = 0;
}
