// plain object for the uid checks: no seteuid in create()
inherit "/script";
void create() { rec("UCREATE " + file_name(this_object())); }
