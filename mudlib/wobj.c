// scripted object for the object-table checks (C08): every hook invocation is recorded with the identity of the object
inherit "/script";

void whook(string h) { rec("HOOK " + me() + " " + h); hook(h); }
void create() { string cs; seteuid(getuid()); rec("CREATE " + file_name(this_object())); cs = master()->take_create_script(); if (cs) run(cs); }
void heart_beat() { whook("hb"); }
void init() { whook("init"); }
int id(string s) { whook("id"); return 0; }
void catch_tell(string s) { whook("catch_tell"); }
void reset() { whook("reset"); }
int move_or_destruct(object dest) { whook("mod"); return 0; }
