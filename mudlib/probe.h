// included by the fixed probe program (C02)
#define PROBE_TWICE(x) ((x) + (x))
#ifdef PROBE_NEVER
this text is skipped
#else
int probe_inc(int v) { return v + 1; }
#endif
