// marker function for generated programs (C18): records that statement n has begun
int M(int n) { rec("M " + n); return 0; }
