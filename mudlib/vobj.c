// generic scripted object
inherit "/script";

int n_hb;
int query_n_hb() { return n_hb; }

void create() { seteuid(getuid()); rec("CREATE " + file_name(this_object())); }

void heart_beat() {
  n_hb++;
  rec("HB " + me() + " " + n_hb + " t=" + time());
  hook("hb");
}
void init() { hook("init"); }
void reset() { rec("RESET " + me()); hook("reset"); }
int clean_up(int inh) { rec("CLEANUP " + me()); hook("clean_up"); return 1; }
int move_or_destruct(object dest) { rec("MOD " + me()); hook("mod"); return 0; }
