// generic scripted object
inherit "/script";

int n_hb;
int query_n_hb() { return n_hb; }

void create() { string cs; seteuid(getuid()); rec("CREATE " + file_name(this_object())); cs = master()->take_create_script(); if (cs) run(cs); }

void heart_beat() {
  n_hb++;
  rec("HB " + me() + " " + n_hb + " t=" + time());
  hook("hb");
}
void init() { hook("init"); }
int id(string s) { hook("id"); return 0; }
// applies made by parse_command()
string *parse_command_id_list() { hook("pid"); return ({ "ball", me() }); }
string *parse_command_plural_id_list() { return ({ "balls" }); }
string *parse_command_adjectiv_id_list() { return ({ "red" }); }
void catch_tell(string s) { hook("catch_tell"); }
void reset() { rec("RESET " + me()); hook("reset"); }
int clean_up(int inh) { rec("CLEANUP " + me()); hook("clean_up"); return 1; }
int move_or_destruct(object dest) { rec("MOD " + me()); hook("mod"); return 0; }
