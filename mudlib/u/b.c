// uid test object b
inherit "/script";
void create() { string cs; rec("UCREATE " + file_name(this_object())); cs = master()->take_create_script(); if (cs) run(cs); }
