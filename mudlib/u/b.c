// uid test object b
inherit "/script";
void create() { rec("UCREATE " + file_name(this_object())); }
