// uid test object d: inherits e
inherit "/u/e";
void create() { rec("UCREATE " + file_name(this_object())); }
