// uid test object c
inherit "/script";
void create() { rec("UCREATE " + file_name(this_object())); }
