// uid test object e
inherit "/script";
void create() { rec("UCREATE " + file_name(this_object())); }
