// uid test object a
inherit "/script";
void create() { rec("UCREATE " + file_name(this_object())); }
