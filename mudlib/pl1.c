// probe load target
inherit "/pl2";
int f() { return g() + 1; }
