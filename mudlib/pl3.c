// probe load chain end
int h() { return 40; }
