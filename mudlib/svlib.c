// save/restore round-trip helpers (C16).  A generated /sv.c inherits this file and defines class K, the value
// functions v1()..vN() and the global variables g1..gN.
class K { mixed a; mixed b; }

string S(string hex) {            // string from hex bytes
  string r; int i, n;
  r = "";
  for (i = 0; i + 1 < strlen(hex); i += 2) { sscanf(hex[i..i + 1], "%x", n); r += sprintf("%c", n); }
  return r;
}
float F(string s) { return to_float(s); }
// a value with n nested containers of one kind (the restore pre-scan counts containers in growing tables)
mixed wide(int n, int kind) {
  mixed *a; int i; class K c;
  a = allocate(n);
  for (i = 0; i < n; i++) {
    if (kind == 0) a[i] = ({ i });
    else if (kind == 1) a[i] = ([ i : "v" + i ]);
    else { c = new(class K); c->a = i; c->b = "b" + i; a[i] = c; }
  }
  return a;
}
string hexs(string s) { string r; int i; r = ""; for (i = 0; i < strlen(s); i++) r += sprintf("%02x", s[i] & 255); return r; }

// deep comparison; returns 0 when equal, else a short description of the first difference
string eqv(mixed a, mixed b, string path) {
  int i; mixed k; string d;
  if (typeof(a) != typeof(b)) return path + ":type " + typeof(a) + "/" + typeof(b);
  if (intp(a)) return a == b ? 0 : path + ":int " + a + "/" + b;
  // floats are equal "to the printed precision": the text the driver itself writes for them
  if (floatp(a)) return (a == b || save_variable(a) == save_variable(b)) ? 0 : path + ":float " + save_variable(a) + "/" + save_variable(b);
  if (stringp(a)) return a == b ? 0 : path + ":string " + hexs(a) + "/" + hexs(b);
  if (classp(a)) {
    d = eqv(((class K)a)->a, ((class K)b)->a, path + "->a"); if (d) return d;
    return eqv(((class K)a)->b, ((class K)b)->b, path + "->b");
  }
  if (arrayp(a)) {
    if (sizeof(a) != sizeof(b)) return path + ":arraysize " + sizeof(a) + "/" + sizeof(b);
    for (i = 0; i < sizeof(a); i++) { d = eqv(a[i], b[i], path + "[" + i + "]"); if (d) return d; }
    return 0;
  }
  if (mapp(a)) {
    if (sizeof(a) != sizeof(b)) return path + ":mapsize " + sizeof(a) + "/" + sizeof(b);
    foreach (k in keys(a)) {
      if (undefinedp(b[k])) return path + ":missing-key";
      d = eqv(a[k], b[k], path + "{}"); if (d) return d;
    }
    return 0;
  }
  if (objectp(a)) return a == b ? 0 : path + ":object";
  return 0;
}

// value with object references replaced by 0 (what a save is allowed to keep of them)
mixed strip_obs(mixed v) {
  int i; mixed k; mapping m; mixed *a;
  if (objectp(v) || functionp(v)) return 0;
  if (classp(v)) { class K c; c = new(class K); c->a = strip_obs(((class K)v)->a); c->b = strip_obs(((class K)v)->b); return c; }
  if (arrayp(v)) { a = allocate(sizeof(v)); for (i = 0; i < sizeof(v); i++) a[i] = strip_obs(v[i]); return a; }
  if (mapp(v)) { m = ([ ]); foreach (k in keys(v)) m[k] = strip_obs(v[k]); return m; }
  return v;
}

void rtv(string i) {               // save_variable / restore_variable round trip of value i
  mixed v, w, e; string s, d;
  v = call_other(this_object(), "v" + i);
  e = catch(s = save_variable(v));
  if (e) { rec("RTV " + i + " saveerr " + replace_string(e, "\n", "")); return; }
  e = catch(w = restore_variable(s));
  if (e) { rec("RTV " + i + " restoreerr " + replace_string(e, "\n", "") + " text=" + hexs(s)); return; }
  d = eqv(strip_obs(v), w, "v");
  rec("RTV " + i + (d ? " NE " + d + " text=" + hexs(s)[0..400] : " eq"));
}
void rv(string hex) {              // restore arbitrary text
  mixed w, e;
  e = catch(w = restore_variable(S(hex)));
  rec("RV " + (e ? "err" : "ok " + typeof(w)));
}
// restore a text nested n levels deep (built here: it would not fit on a command line).  kind: a array, m mapping, c class;
// closed = 0 leaves it unterminated.  save_variable() never writes more than 25 levels.
void rvdeep(string kind, string spec) {     // spec = "<n>:<closed>"
  mixed w, e; string s, op, cl, closed; int n;
  n = to_int(explode(spec, ":")[0]); closed = explode(spec, ":")[1];
  op = kind == "a" ? "({" : (kind == "m" ? "([1:" : "(/");
  cl = kind == "a" ? ",})" : (kind == "m" ? ",])" : ",/)");
  s = repeat_string(op, n) + "7" + (to_int(closed) ? repeat_string(cl, n) : "");
  e = catch(w = restore_variable(s));
  rec("RV " + (e ? "err" : "ok " + typeof(w)));
}
void rvraw(string text) {         // restore text given literally; echoes what came back
  mixed w, e; string s2;
  e = catch(w = restore_variable(text));
  if (e) { rec("RVRAW err " + replace_string(e, "\n", "")); return; }
  e = catch(s2 = save_variable(w));
  rec("RVRAW ok " + typeof(w) + " " + (e ? "resave-err" : s2));
}
void svtext(string i) {            // record the save text of value i
  string s; mixed e;
  e = catch(s = save_variable(call_other(this_object(), "v" + i)));
  rec("SVTEXT " + i + " " + (e ? "-" : hexs(s)));
}
