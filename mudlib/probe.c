// fixed probe program (C02): compiled at boot and after every compilation of the history; its structure and
// results must never depend on what the compiler saw before
inherit "/mk";
#include "/probe.h"
#define THREE 3
class PK { int a; string b; }
int gp = 5; string gs = "probe"; mapping gm = ([ "k" : ({ 1, 2 }) ]);
private int priv(int x) { return x * THREE; }
static varargs string vfun(string a, int b) { return a + b; }
string sw(string k) {
  switch (k) { case "alpha": return "A"; case "beta": return "B"; case "gamma": return "G"; case "delta": return "D"; default: return "?"; }
}
int isw(int k) { switch (k) { case 1..3: return 10; case 7: return 70; case 100: return 1000; } return -1; }
mixed run() {
  int i, acc; function f, g; class PK c; mixed *a; string t;
  f = (: $1 * 2 + gp :);
  g = function(int x, int y) { return x - y + priv(1); };
  c = new(class PK); c->a = 4; c->b = "pk";
  a = ({ 3, 1, 2 });
  for (i = 0; i < 5; i++) acc += probe_inc(i);
  foreach (i in a) acc += i;
  t = sprintf("%d|%d|%d|%s|%s|%s%s|%d|%d|%d|%s|%O", acc, evaluate(f, 3), evaluate(g, 9, 2), vfun("v"), vfun("w", 2), sw("gamma"), sw("x"), isw(2), isw(100), PROBE_TWICE(c->a), c->b + gs, sort_array(a, 1));
  t += @TXT
|text block
TXT;
  return t + "|" + implode(keys(gm), ",") + "|" + M(0);
}
