// probe load chain
inherit "/pl3";
int g() { return h() + 1; }
