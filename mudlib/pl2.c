// probe load chain
int g() { return 41; }
