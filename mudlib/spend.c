// spenders and builders for the limit checks (C04): every one is infinite or unbounded by construction
string gs; mixed *ga; mapping gm;

void sp_while() { while (1) ; }
void sp_for() { int i; for (i = 0; ; i++) ; }
void sp_dowhile() { int i; do { i++; } while (1); }
void sp_foreach() { int x; while (1) foreach (x in ({ 1, 2, 3 })) ; }
void sp_foreach_map() { mixed k, v; while (1) foreach (k, v in ([ 1: 2, 3: 4 ])) ; }
void sp_foreach_str() { int c; while (1) foreach (c in "abc") ; }
void sp_whiledec() { int i; i = 2000000000; while (i--) ; }
void sp_loopcond() { int i; for (i = 0; i < 2000000000; i++) ; }
void sp_looplocal() { int i, n; n = 2000000000; for (i = 0; i < n; i++) ; }

void rc_direct() { rc_direct(); }
void rc_mut_b();
void rc_mut_a() { rc_mut_b(); }
void rc_mut_b() { rc_mut_a(); }
void rc_fp() { evaluate((: rc_fp :)); }
int rc_filter_cb(mixed x);
void rc_filter() { filter(({ 1 }), (: rc_filter_cb :)); }
int rc_filter_cb(mixed x) { rc_filter(); return 1; }
mixed rc_map_cb(mixed x);
void rc_map() { map(({ 1 }), (: rc_map_cb :)); }
mixed rc_map_cb(mixed x) { rc_map(); return 1; }
int rc_sort_cb(mixed a, mixed b);
void rc_sort() { sort_array(({ 2, 1 }), (: rc_sort_cb :)); }
int rc_sort_cb(mixed a, mixed b) { rc_sort(); return 0; }
mixed rc_unique_cb(mixed x);
void rc_unique() { unique_array(({ 1, 2 }), (: rc_unique_cb :)); }
mixed rc_unique_cb(mixed x) { rc_unique(); return 1; }
// recursion through a function pointer with many bound arguments: the value stack fills long before the call depth does
varargs void rc_fpargs(mixed a) { function f; f = (: rc_fpargs, 1, 2, 3, 4, 5, 6, 7, 8, 9, 10, 11, 12, 13, 14, 15, 16, 17, 18, 19, 20, 21, 22, 23, 24, 25, 26, 27, 28, 29, 30, 31, 32, 33, 34, 35, 36, 37, 38, 39, 40 :); evaluate(f); }
varargs void rc_spread(mixed a) { rc_spread(allocate(60)...); }
varargs mixed rc_efunfp(mixed a) { function f; f = (: sizeof, ({ 1 }) :); return evaluate((: rc_efunfp, allocate(50)... :)) + evaluate(f); }
// a loop whose body makes the driver apply a master function through safe_apply() (object_name for "%O"): with a master
// whose function never returns, every turn runs into the evaluation limit inside that callback
void sp_objname() { string t; while (1) t = sprintf("%O", this_object()); }
// recursion from inside an aggregate: every level has a hundred values on the stack when it calls the next one, so the value stack
// fills after a few levels - and fills through plain pushes of locals, not at a function entry
varargs mixed rc_aggr(int n) { int a; mixed *x; a = 1; x = ({ a, a, a, a, a, a, a, a, a, a, a, a, a, a, a, a, a, a, a, a, a, a, a, a, a, a, a, a, a, a, a, a, a, a, a, a, a, a, a, a, a, a, a, a, a, a, a, a, a, a, a, a, a, a, a, a, a, a, a, a, a, a, a, a, a, a, a, a, a, a, a, a, a, a, a, a, a, a, a, a, a, a, a, a, a, a, a, a, a, a, a, a, a, a, a, a, a, a, a, a, rc_aggr(n + 1) }); return x[0]; }
varargs mixed rc_aggrs(int n) { string a; a = "v"; return implode(({ a, a, a, a, a, a, a, a, a, a, a, a, a, a, a, a, a, a, a, a, a, a, a, a, a, a, a, a, a, a, a, a, a, a, a, a, a, a, a, a, a, a, a, a, a, a, a, a, a, a, a, a, a, a, a, a, a, a, a, a, rc_aggrs(n + 1) }), ""); }
varargs mixed rc_args(int n) { int a; a = 1; return rc_args(a, a, a, a, a, a, a, a, a, a, a, a, a, a, a, a, a, a, a, a, rc_args(n + 1)); }
void rc_callother() { this_object()->rc_callother(); }
void rc_catch() { catch(rc_catch()); }
void rc_catch2() { catch(catch(rc_catch2())); }
// loops and recursion whose body catches an ordinary error every turn: each caught error runs the master's error handler
// inside the same evaluation, and nothing about that may add to the budget
void sp_catchdiv() { int z, q; while (1) catch(q = 1 / z); }
void sp_catcherr() { while (1) catch(error("spent\n")); }
void sp_catchthrow() { while (1) catch(throw("spent")); }
void sp_catchidx() { mixed *a; a = ({ }); while (1) catch(a[3]); }
void sp_catchdest() { object o; while (1) { o = new("/vobj"); destruct(o); catch(o->foo()); catch(move_object(o)); } }
void rc_catcherr() { catch(error("spent\n")); rc_catcherr(); }

// builders: grow a value without bound; the driver must stop them with an error
mixed bd(string kind) {
  string s; mixed *a; mapping m; buffer b; int i;
  s = "abcdefgh"; a = ({ 1, 2, 3, 4 }); m = ([ ]); b = allocate_buffer(8);
  switch (kind) {
  case "str+=": for (i = 0; i < 20; i++) s += s; return s;
  case "str+": for (i = 0; i < 20; i++) s = s + s; return s;
  case "gstr+=": gs = "abcdefgh"; for (i = 0; i < 20; i++) gs += gs; return gs;
  case "sprintf": for (i = 0; i < 20; i++) s = sprintf("%s%s", s, s); return s;
  case "repeat": for (i = 1; i < 20; i++) s = repeat_string("ab", 1 << i); return s;
  case "replace": for (i = 0; i < 20; i++) s = replace_string(s, "a", "aa"); return s;
  case "implode": for (i = 0; i < 20; i++) { s = implode(({ s, s }), "x"); } return s;
  case "arr+=": for (i = 0; i < 20; i++) a += a; return a;
  case "arr+": for (i = 0; i < 20; i++) a = a + a; return a;
  case "garr+=": ga = ({ 1, 2 }); for (i = 0; i < 20; i++) ga += ga; return ga;
  case "allocate": for (i = 1; i < 20; i++) a = allocate(1 << i); return a;
  case "explode": for (i = 1; i < 20; i++) a = explode(repeat_string("a b ", 1 << i), " "); return a;
  case "map+": for (i = 0; i < 300000; i++) m = m + ([ i: i ]); return m;
  case "mapins": for (i = 0; i < 300000; i++) m[i] = i; return m;
  case "gmapins": gm = ([ ]); for (i = 0; i < 300000; i++) gm[i] = i; return gm;
  case "allocmap": for (i = 1; i < 20; i++) m = allocate_mapping(1 << i); return m;
  case "allocbuf": for (i = 1; i < 20; i++) b = allocate_buffer(1 << i); return b;
  case "buf+": for (i = 0; i < 20; i++) b = b + b; return b;
  case "copy": for (i = 0; i < 20; i++) a = copy(a) + copy(a); return a;
  case "strrange": for (i = 0; i < 22; i++) s[0..0] = s; return s;
  case "arrrange": for (i = 0; i < 22; i++) a[0..0] = a; return a;
  case "bufrange": for (i = 0; i < 22; i++) b[0..0] = b; return b;
  case "gstrrange": gs = "abcdefgh"; for (i = 0; i < 22; i++) gs[<1..] = gs; return gs;
  case "replace5": for (i = 0; i < 22; i++) s = replace_string(s, "a", "aaa", 0, 1000000); return s;
  case "replace1": for (i = 0; i < 22; i++) s = replace_string(s, "abcdefgh", s + s, 1); return s;
  case "replace_end":   // the result length crosses the limit while the text in front of the match was copied by the fast path
    { int lim; foreach (lim in ({ 600, 4000, 70000 })) for (i = lim - 130; i <= lim; i++) s = replace_string(repeat_string("x", i) + "ab", "ab", repeat_string("r", 100)); }
    return s;
  case "replace_mid":
    { int lim; foreach (lim in ({ 600, 4000, 70000 })) for (i = lim - 130; i <= lim; i++) s = replace_string(repeat_string("xy", i / 4) + "abc" + repeat_string("z", i / 2), "abc", repeat_string("r", 60)); }
    return s;
  case "spad": for (i = 1; i < 22; i++) s = sprintf("%" + (1 << i) + "s", "x"); return s;
  case "spadr": for (i = 1; i < 22; i++) s = sprintf("%-" + (1 << i) + "s|", "x"); return s;
  case "scol": for (i = 1; i < 22; i++) s = sprintf("%-=" + (1 << i) + "s", repeat_string("ab ", 1 << i)); return s;
  case "imparr": for (i = 1; i < 22; i++) s = implode(explode(repeat_string("ab ", 1 << i), " "), ",,,,"); return s;
  case "strslice": for (i = 0; i < 22; i++) s = s[0..] + s[1..] + "x"; return s;
  case "mapmul": for (i = 0; i < 300000; i++) { m[i] = i; if (!(i % 4096)) m = m + m; } return m;
  case "savevar": for (i = 0; i < 22; i++) { a = ({ s, s, s }); s = save_variable(a); } return s;
  case "savevar2": for (i = 1; i < 22; i++) s = save_variable(allocate(1 << i)); return s;
  case "keys": for (i = 0; i < 300000; i++) { m[i] = i; if (!(i % 64)) a = keys(m) + values(m); } return a;
  }
  return 0;
}

int vsize(mixed v) {
  if (stringp(v)) return strlen(v);
  if (arrayp(v) || mapp(v) || bufferp(v)) return sizeof(v);
  return -1;
}
