// verification master object. Behaviour knobs come from /mcfg.h (written per plan).
#include "/mcfg.h"

int eh_count;
int n_conn;
mapping registry;

void reg(string t, object o) { if (!registry) registry = ([ ]); registry[t] = o; }
string create_script;
void set_create_script(string s) { create_script = s; }
string take_create_script() { string s; s = create_script; create_script = 0; return s; }
object lookup(string t) { if (!registry) return 0; return registry[t]; }

void create() { rec("MASTER create"); }

object connect(int port) {
  object ob;
  n_conn++;
#ifdef CONNECT_ERROR
  if (CONNECT_ERROR) error("connect bomb\n");
#endif
  ob = new(USER_FILE);
  rec("CONNECT " + port + " " + file_name(ob));
  return ob;
}

string creator_file(string file) { return "Root"; }
string get_root_uid() { return "Root"; }
string get_bb_uid() { return "Backbone"; }
int valid_seteuid(object ob, string newuid) { return 1; }
int valid_read(string file, object user, string func) { return 1; }
int valid_write(string file, object user, string func) { return 1; }
int valid_object(object ob) { return 1; }
string *epilog(int eflag) { return ({ }); }
void preload(string file) { }
void log_error(string file, string msg) { rec("LOGERR " + file + " " + msg); }

#ifndef NO_ERROR_HANDLER
string error_handler(mapping err, int caught) {
  string s, t;
  mixed *tr;
  int i;
  eh_count++;
  s = "ERR caught=" + caught + " file=" + err["file"] + " line=" + err["line"]
    + " object=" + (err["object"] ? file_name(err["object"]) : "0")
    + " program=" + err["program"] + " msg=" + replace_string(err["error"], "\n", "") + " trace=";
  tr = err["trace"];
  if (arrayp(tr))
    for (i = 0; i < sizeof(tr); i++) {
      t = tr[i]["function"] + "@" + tr[i]["program"] + ":" + tr[i]["line"] + "(" + (tr[i]["object"] ? file_name(tr[i]["object"]) : "0") + ")";
      s += (i ? "|" : "") + t;
    }
  rec(s);
#ifdef EH_RAISE
  if (EH_RAISE == 1 || (EH_RAISE == 2 && eh_count <= 2)) error("error_handler bomb\n");
#endif
  return "";
}
#endif

void crash(string msg, object cg, object co) { rec("CRASH " + msg); }
