// verification master object. Behaviour knobs come from /mcfg.h (written per plan).
#include "/mcfg.h"

int eh_count;
void load_policy();
int n_conn;
mapping registry;

void reg(string t, object o) { if (!registry) registry = ([ ]); registry[t] = o; }
string create_script;
void set_create_script(string s) { create_script = s; }
string take_create_script() { string s; s = create_script; create_script = 0; return s; }
mapping query_registry() { return registry; }
int has_tag(string t) { return registry && !undefinedp(registry[t]); }
mapping reserved_tags;
string fresh_tag(string t) { if (!reserved_tags) reserved_tags = ([ ]); while (has_tag(t) || reserved_tags[t]) t += "x"; reserved_tags[t] = 1; return t; }
object lookup(string t) { if (!registry) return 0; return registry[t]; }

void create() { rec("MASTER create"); load_policy(); }

object connect(int port) {
  object ob;
  n_conn++;
#ifdef CONNECT_ERROR
  if (CONNECT_ERROR) error("connect bomb\n");
#endif
  ob = new(USER_FILE);
  rec("CONNECT " + port + " " + file_name(ob));
  return ob;
}

// creator_file / valid_seteuid answers: mappings set from /cfpolicy, /vspolicy ("key answer" per line) and at run time
// through set_cf/set_vs.  Default answers are Root and 1.  Answers: a uid name, 0, A (array), E (raise an error), S (string)
mapping cfmap, vsmap; int uid_log;
void set_cf(string file, string ans) { if (!cfmap) cfmap = ([ ]); cfmap[file] = ans; uid_log = 1; }
void set_vs(string uid, string ans) { if (!vsmap) vsmap = ([ ]); vsmap[uid] = ans; uid_log = 1; }
mixed creator_file(string file) {
  string a, base; int n;
  base = file;
  if (sscanf(file, "%s#%d", base, n) != 2) base = file;
  a = (cfmap && cfmap[base]) ? cfmap[base] : "Root";
  if (uid_log) rec("CF " + file + " ans=" + a);
#ifdef VALID_OBJECT_UIDS
  if (find_object(file)) rec("CFU " + file + " uid=" + (getuid(find_object(file)) ? getuid(find_object(file)) : "0"));
#endif
  if (a == "0") return 0;
  if (a == "A") return ({ "junk" });
  if (a == "E") error("creator_file bomb\n");
  return a;
}
string get_root_uid() { return "Root"; }
string get_bb_uid() { return "Backbone"; }
#ifndef NO_VALID_SETEUID
mixed valid_seteuid(object ob, string newuid) {
  string a;
  a = (vsmap && vsmap[newuid]) ? vsmap[newuid] : "1";
  if (uid_log) rec("VS " + file_name(ob) + " " + newuid + " ans=" + a);
  if (a == "0") return 0;
  if (a == "A") return ({ });
  if (a == "E") error("valid_seteuid bomb\n");
  if (a == "S") return "yes";
  return 1;
}
#endif
// the master itself creating objects, optionally with its own euid dropped to 0 first (the master is exempt from the euid rule)
void m_clone(string file, string t, int drop) {
  mixed e, r; object q;
  if (drop) { seteuid(0); rec("USETEUID M 0 ret=1 err=0"); }
  rec("UNEW uclone M " + file + " " + t);
  e = catch(q = clone_object(file));
  if (q) q->set_tag(t);
  rec("UNEWDONE " + t + " ok=" + (q ? 1 : 0) + " err=" + (e ? replace_string(e, "\n", "") : "0"));
  e = catch(r = seteuid("Root"));
  rec("USETEUID M Root ret=" + r + " err=" + (e ? 1 : 0));
}
// policy: answers for successive valid_read/valid_write calls, read from /policy (written by the plan)
string *policy; int policy_pos;
string hexs(string s) { string r; int i; r = ""; for (i = 0; i < strlen(s); i++) r += sprintf("%02x", s[i] & 255); return r; }
// (a path can carry "@<n>@", which stands for n letters: names far longer than a command line)
string unhex(string hex) { string r, pre, post; int i, n, k; r = ""; for (i = 0; i + 1 < strlen(hex); i += 2) { sscanf(hex[i..i + 1], "%x", n); r += sprintf("%c", n); }
  while (sscanf(r, "%s@%d@%s", pre, k, post) == 3) r = pre + repeat_string("a", k) + post;
  return r; }
mixed answer(string kind, string file, object user, string func) {
  string a;
  if (!policy || policy_pos >= sizeof(policy)) a = "1"; else a = policy[policy_pos++];
  rec(kind + " " + func + " " + hexs(file) + " ans=" + a);
  if (a == "0") return 0;
  if (a == "1") return 1;
  if (a == "I") return 7;
  if (a == "A") return ({ "junk" });
  if (a == "E") error("policy bomb\n");
  if (strlen(a) > 2 && a[0..1] == "S:") return unhex(a[2..]);
  return 1;
}
mixed valid_read(string file, object user, string func) { return answer("VR", file, user, func); }
mixed valid_write(string file, object user, string func) { return answer("VW", file, user, func); }
void load_policy() { string t; t = read_file("/policy"); if (t) policy = explode(t, "\n"); policy_pos = 0;
  t = read_file("/cfpolicy"); if (t) { string l, k, v; foreach (l in explode(t, "\n")) if (sscanf(l, "%s %s", k, v) == 2) set_cf(k, v); }
  t = read_file("/vspolicy"); if (t) { string l, k, v; foreach (l in explode(t, "\n")) if (sscanf(l, "%s %s", k, v) == 2) set_vs(k, v); } }
#ifdef VALID_OBJECT_DENY
int valid_object(object ob) { if (file_name(ob) == VALID_OBJECT_DENY) { rec("VETO " + file_name(ob)); return 0; } return 1; }
#elif defined(VALID_OBJECT_UIDS)
// a master that looks at the uids of the object it is asked about: at that moment the driver has not given it any yet
int valid_object(object ob) { rec("VOU " + file_name(ob) + " uid=" + (getuid(ob) ? getuid(ob) : "0") + " euid=" + (geteuid(ob) ? geteuid(ob) : "0")); return 1; }
#else
int valid_object(object ob) { return 1; }
#endif
int valid_save_binary(string file) { rec("VSB " + file); return 1; }
// virtual objects (C08): what compile_object() answers for names under /v/ is set by the plan through set_vo()
mapping vomap; object vo_last;
void set_vo(string name, string how) { if (!vomap) vomap = ([ ]); vomap[name] = how; }
mixed compile_object(string file) {
  string how; object o;
  if (!vomap || !(how = vomap[file])) return 0;
  rec("VO " + file + " " + how);
  switch (how) {
  case "clone": vo_last = clone_object("/wobj"); return vo_last;        // a fresh object
  case "uclone": vo_last = clone_object("/uobj"); return vo_last;       // C20: a fresh object created by the master
  case "again": return vo_last;                                           // the object already handed out for another name
  case "dead": o = clone_object("/wobj"); destruct(o); return o;          // a destructed object
  case "int": return 7;
  case "err": error("compile_object bomb\n");
  case "master": return this_object();
  }
  if (how[0..3] == "tag:") return lookup(how[4..]);                       // an existing, tagged object
  return 0;
}
mapping regnames;
void regname(string t, string n) { if (!regnames) regnames = ([ ]); regnames[t] = n; }
mapping query_regnames() { return regnames ? regnames : ([ ]); }
#ifdef PRELOAD_LIST
string *epilog(int eflag) { rec("EPILOG"); return PRELOAD_LIST; }
void preload(string file) { rec("PRELOAD " + file); load_object(file); }
#else
string *epilog(int eflag) { return ({ }); }
void preload(string file) { }
#endif
string *parse_command_prepos_list() { return ({ "from", "in", "on" }); }
string parse_command_all_word() { return "all"; }
string *parse_command_id_list() { return ({ "thing" }); }
string *parse_command_plural_id_list() { return ({ "things" }); }
string *parse_command_adjectiv_id_list() { return ({ }); }
#ifdef OBJECT_NAME_SPIN
// applied by sprintf("%O") through safe_apply: a callback that never returns on its own
string object_name(object ob) { while (1) ; return "x"; }
#endif
int valid_link(string from, string to) { rec("VL " + from + " " + to); return 1; }
// valid_bind answers: 1 (default), 0, E (raise an error); set at run time through set_vb (C20)
string vbans;
void set_vb(string a) { vbans = a; uid_log = 1; }
int valid_bind(object binder, object old_owner, object new_owner) {
  if (uid_log) rec("VB " + file_name(binder) + " " + file_name(new_owner) + " ans=" + (vbans ? vbans : "1"));
  if (vbans == "0") return 0;
  if (vbans == "E") error("valid_bind bomb\n");
  return 1;
}
#ifdef LOGERR_LOADS
// a master that needs a helper object to log a compile error: the helper is loaded (from its saved binary) in the middle of
// the compilation that reports the error
void log_error(string file, string msg) { object h; rec("LOGERR " + file + " " + msg); catch(h = load_object("/x/lhelp")); if (h) destruct(h); }
#else
void log_error(string file, string msg) { rec("LOGERR " + file + " " + msg); }
#endif

#ifndef NO_ERROR_HANDLER
string error_handler(mapping err, int caught) {
  string s, t, tf;
  mixed *tr;
  int i;
  eh_count++; tf = "";
  s = "ERR caught=" + caught + " file=" + err["file"] + " line=" + err["line"]
    + " object=" + (err["object"] ? file_name(err["object"]) : "0")
    + " program=" + err["program"] + " msg=" + replace_string(err["error"], "\n", "") + " trace=";
  tr = err["trace"];
  if (arrayp(tr))
    for (i = 0; i < sizeof(tr); i++) {
      t = tr[i]["function"] + "@" + tr[i]["program"] + ":" + tr[i]["line"] + "(" + (tr[i]["object"] ? file_name(tr[i]["object"]) : "0") + ")";
      s += (i ? "|" : "") + t;
      tf += (i ? "|" : "") + tr[i]["file"];
    }
  rec(s + " tfiles=" + tf);
#ifdef EH_CATCH
  // a handler that protects its own logging with catch(), as real mudlibs do
  { mixed e2; e2 = catch(error("inner error of the error handler\n")); e2 = catch(tf = tf + ""); }
#endif
#ifdef EH_CATCH1
  // a handler that only runs a catch() which completes normally
  { mixed e3; e3 = catch(tf = tf + ""); }
#endif
#ifdef EH_RAISE
  if (EH_RAISE == 1 || (EH_RAISE == 2 && eh_count <= 2)) error("error_handler bomb\n");
#endif
  return "";
}
#endif

void crash(string msg, object cg, object co) { rec("CRASH " + msg); }
