#define USER_FILE "/user"
