// verification simul_efun: direct record channel to the simulator's event log
void rec(string s) { debug_message("@R " + s); }
string oname(mixed o) { if (!objectp(o)) return "0"; return file_name(o); }
