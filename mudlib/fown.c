// a program of its own whose functionals are handed to others (C06): when the one object of this program is gone, the values
// it made are all that keeps the program alive
int base = 2;
mixed mkf(int k) {
  switch (k) {
  case 0: return (: $1 + 2 :);
  case 1: return function(int x) { return x + base; };
  case 2: return ({ (: $1 + 3 :), "from fown", (: $1 * 2 :) });
  }
  return (: mkf, 0 :);
}
