# C12 - buffered commands are served fairly: one per user per cycle, nobody starves.
# Engine W-loop: real backend loop / process_user_command / get_user_command with simulated clients.
import re, hashlib
from ..core import Plan, Violation, generic_crash_violations, spin_violations, enc, dec
from ..world import *

PROP = 'C12'
LEVEL = 'exploration'
RULE = ('one evaluation = one driver life with 1-12 clients whose connection slots have gaps (connect, disconnect some, connect '
        'more), each sending 0-20 command lines in one or many segments at seeded cycles, some in single-character mode, some '
        'commands calling command() several times, users connecting and disconnecting mid-run, ticks interleaved. non-trivial = at '
        'least two users had commands buffered in the same cycle; distinct = distinct abstract traces (per cycle: set of users '
        'with buffered commands and set served, slot layout).')
RULE += (' Later additions: commands that end in an uncaught error among the queued ones; reads interrupted by EINTR; a connection that the client neither closed nor reset must not be closed by the driver; connections reported readable with nothing to read.')
COMPONENTS = {'real': ['src/backend.c main loop (turn granting)', 'src/comm.c process_user_command/get_user_command/first_cmd_in_buf/next_cmd_in_buf/get_user_data', 'lib/efuns/command.c'],
              'stub': ['kernel recv()/epoll (simulated, one recv per readiness event)', 'timer thread (plan ticks)']}
ASSUMPTIONS = ['a cycle = one pass of the backend loop = one epoll_wait call of the simulated kernel',
               'a command is buffered for cycle c when the bytes recv() has returned up to and including cycle c contain its line terminator']


def gen(rng, tier, i):
    p = Plan()
    p.file('mcfg.h', mcfg({'USER_PROCESS_INPUT': '1'}))
    p.cfg('Port', '4000:telnet')
    p.opt('epoll_seed', rng.randint(1, 1 << 30))
    nmax = rng.randint(1, 12)
    failing = rng.random() < 0.3
    cid = [0]
    live = []
    charmode = set()
    oneshot_done = set()

    def connect_one():
        c = cid[0]; cid[0] += 1
        p.cycle(connect(0, c)); live.append(c)
        if rng.random() < 0.15:
            p.cycle(send(c, 'do gcl\r\n')); charmode.add(c)
        return c

    for _ in range(rng.randint(1, nmax)): connect_one()
    # gaps: disconnect some, connect more
    if len(live) > 2 and rng.random() < 0.7:
        for c in rng.sample(live, rng.randint(1, len(live) - 1)):
            p.cycle(rng.choice((eof(c), rst(c)))); live.remove(c); charmode.discard(c)
        for _ in range(rng.randint(0, 4)): connect_one()
    p.idle(2)
    seq = {}
    for _ in range(rng.randint(3, 25 if tier == 'quick' else 60)):
        r = rng.random()
        if r < 0.7 and live:
            steps = []
            for c in rng.sample(live, rng.randint(1, min(len(live), 6))):
                n = rng.choice((1, 1, 2, 3, 5, 10, 20))
                data = ''
                if c in oneshot_done: continue
                if c not in charmode and rng.random() < 0.12:
                    # type-ahead across a one-shot get_char()/input_to(): the arming command, its answer and more commands
                    # arrive in ONE read, so everything after the arming line was received in line mode.  The connection is
                    # then left alone (bytes arriving while single-character mode is armed follow other rules).
                    k = seq.get(c, 0) + 1; seq[c] = k
                    for _ in range(rng.randint(0, 3)):
                        data += 'c%d_%d\r\n' % (c, k); k += 1
                    arm = rng.choice(('getchar', 'inputto'))
                    data += 'do %s 0 rec armed\r\n' % arm
                    if arm == 'getchar' and rng.random() < 0.4:
                        # the key was pressed ahead of the prompt and nothing follows it: in single-character mode that one
                        # byte is a complete command
                        data += rng.choice(('y', 'n', 'yz'))
                    else:
                        data += rng.choice(('y', 'yes', '', 'c%d_ans' % c)) + '\r\n'
                        for _ in range(rng.randint(1, 4)):
                            data += 'c%d_%d\r\n' % (c, k); k += 1
                    seq[c] = k
                    oneshot_done.add(c)
                    steps.append(send(c, data, None))
                    continue
                if c not in charmode and rng.random() < 0.06:
                    # exec(): the connection moves to a new user object while commands are still buffered behind it
                    k = seq.get(c, 0) + 1; seq[c] = k
                    data += 'c%d_%d\r\ndo exec dest\r\n' % (c, k)
                if c in charmode:
                    data = ''.join(rng.choice('abcdefghijklmnop') for _ in range(rng.randint(1, 8)))
                else:
                    for _ in range(n):
                        k = seq.get(c, 0) + 1; seq[c] = k
                        if rng.random() < 0.1: data += 'do cmd x%d_%da;cmd x%d_%db;cmd x%d_%dc\r\n' % (c, k, c, k, c, k)
                        # (a command that ends in an uncaught error is a turn like any other: whoever else has a command
                        # waiting in that cycle is served all the same)
                        elif failing and rng.random() < 0.15: data += 'do rec c%d_%d;bomb %d err\r\n' % (c, k, 100 * c + k)
                        else: data += 'c%d_%d\r\n' % (c, k)
                segs = rand_segs(rng, len(data)) if rng.random() < 0.4 else None
                if rng.random() < 0.04: steps.append('spurious %d' % rng.choice(live))       # a connection reported readable with nothing to read
                if rng.random() < 0.05: steps.append('recvintr %d %d' % (c, rng.randint(1, 2)))     # the read of this data is interrupted first (EINTR): the data is still there
                steps.append(send(c, data, segs))
            p.cycle(*steps)
        elif r < 0.8:
            p.cycle(tick())
        elif r < 0.87 and len(live) > 1:
            c = rng.choice(live); live.remove(c); charmode.discard(c)
            p.cycle(rng.choice((eof(c), rst(c))))
        elif r < 0.94 and cid[0] < 16:
            connect_one()
        else:
            p.idle(rng.randint(1, 3))
    p.idle(30)
    return p


def check(plan, res):
    v = generic_crash_violations(PROP, res)
    if v: return v
    v += spin_violations(PROP, res)
    evs = res.events
    # a user is served as long as the connection is there: the driver does not hang up on a client that neither closed nor
    # reset the connection (an interrupted read is no end of the connection)
    ended = set()
    for e in evs:
        if e.kind == 'recv' and (' eof' in e.rest or ' rst' in e.rest): ended.add(int(e.kv()['conn']))
        elif e.kind == 'send' and ('epipe' in e.rest or 'reset' in e.rest): ended.add(int(e.kv()['conn']))
        elif e.kind == 'step' and re.search(r'step (eof|rst) (\d+)', e.rest): ended.add(int(re.search(r'step (eof|rst) (\d+)', e.rest).group(2)))
        elif e.kind == 'close':
            c = int(e.kv()['conn'])
            if c not in ended:
                v.append(Violation(PROP, 'hangup', 'the driver closed connection %d although the client had neither closed nor reset it' % c, PROP + '/connection/closed-by-driver'))
                break
    # bytes sent per conn in plan order
    sent = {}
    for cyc in plan.cycles:
        for st in cyc:
            op, a = parse_step(st)
            if op == 'send': sent[int(a[0])] = sent.get(int(a[0]), b'') + dec(a[1])
    alias = {}; last_accept = None
    got = {}          # conn -> cumulative bytes received
    served = {}       # conn -> list of (cycle, kind, text)
    char_since = {}   # conn -> True while in perpetual char mode
    dead = {}         # conn -> cycle of disconnect
    per_cycle = {}    # cycle -> {conn: [service records]}
    avail_after = {}  # (conn) -> list of (cycle, cumulative bytes)
    cmdx = {}         # conn -> records of command() issued commands
    for e in evs:
        if e.kind == 'accept': last_accept = int(e.kv()['conn'])
        elif e.kind == 'recv':
            kv = e.kv(); c = int(kv['conn'])
            if 'n' in kv:
                got[c] = got.get(c, 0) + int(kv['n'])
                avail_after.setdefault(c, []).append((e.cycle, got[c]))
            elif ' eof' in e.rest or ' rst' in e.rest: dead.setdefault(c, e.cycle)
        elif e.kind == 'close':
            dead.setdefault(int(e.kv()['conn']), e.cycle)
        elif e.kind == 'R':
            w = e.rest.split(' ', 2)
            if w[0] == 'CONNECT':
                ww = e.rest.split(' ')
                if last_accept is not None: alias[ww[2]] = last_accept; last_accept = None
            elif w[0] == 'EXECD' and len(e.rest.split(' ')) > 2:
                ww = e.rest.split(' ')
                if ww[2] in alias: alias[ww[1]] = alias[ww[2]]
            elif w[0] in ('PI', 'INPUT', 'CHAR') and w[1] in alias:
                c = alias[w[1]]
                served.setdefault(c, []).append((e.cycle, w[0], w[2] if len(w) > 2 else ''))
                per_cycle.setdefault(e.cycle, {}).setdefault(c, []).append(w[0])
            elif w[0] == 'CMD' and w[1] in alias:
                cmdx.setdefault(alias[w[1]], []).append((e.cycle, w[2] if len(w) > 2 else ''))
    last_cycle = evs[-1].cycle if evs else 0
    for c, stream in sent.items():
        srv = served.get(c, [])
        # at most one buffered command per user per cycle
        for cyc, recs in per_cycle.items():
            if len(recs.get(c, [])) > 1:
                v.append(Violation(PROP, 'twice', 'conn %d was served %d buffered commands in cycle %d' % (c, len(recs[c]), cyc), PROP + '/turns/more-than-one-per-cycle'))
                break
        av = avail_after.get(c, [])
        end = dead.get(c, last_cycle + 1)
        by_cycle = {}
        for cyc, kind, text in srv: by_cycle.setdefault(cyc, []).append((kind, text))
        # walk the cycles: what is buffered (by the bytes recv() has returned so far) and what is served
        pos = 0          # offset in the stream of the first byte not yet handed to the user object
        charm = False; oneshot = None
        gotc = 0; ai = 0
        if not av: continue
        bad = False
        for cyc in range(av[0][0], min(end, last_cycle)):
            while ai < len(av) and av[ai][0] <= cyc: gotc = av[ai][1]; ai += 1
            # what should be served in this cycle, if anything
            exp = None
            if charm:
                if gotc > pos: exp = ('CHAR', stream[pos:gotc].decode('latin-1'), gotc)
            elif oneshot:
                # armed by a one-shot get_char()/input_to(): the next buffered line, empty or not, is the answer
                j = stream.find(b'\r\n', pos, gotc)
                if j >= 0 and j + 2 <= gotc: exp = (oneshot, stream[pos:j].decode('latin-1'), j + 2)
                elif oneshot == 'CHAR' and gotc > pos and b'\r' not in stream[pos:gotc]: exp = ('CHAR', stream[pos:gotc].decode('latin-1'), gotc)   # any byte is a command in that mode
            else:
                p2 = pos
                while True:
                    j = stream.find(b'\r\n', p2, gotc)
                    if j < 0 or j + 2 > gotc: break
                    line = stream[p2:j].decode('latin-1')
                    if line: exp = ('PI', line, j + 2); break
                    p2 = j + 2
            recs = by_cycle.get(cyc, [])
            if exp is None:
                if recs:
                    v.append(Violation(PROP, 'extra', 'conn %d was served %r in cycle %d with nothing complete in its buffer' % (c, recs[0][1][:30], cyc), PROP + '/order/unexpected-command')); bad = True
                    break
                continue
            if not recs:
                v.append(Violation(PROP, 'starved', 'conn %d had a complete command (%r) buffered in cycle %d but was not served in that cycle' % (c, exp[1][:30], cyc), PROP + '/turns/starved')); bad = True
                break
            kind, text = recs[0]
            if text != exp[1] or kind != exp[0]:
                v.append(Violation(PROP, 'order', 'conn %d cycle %d: served %s %r, expected %s %r' % (c, cyc, kind, text[:30], exp[0], exp[1][:30]), PROP + '/order/not-fifo')); bad = True
                break
            pos = exp[2]
            if exp[1] == 'do gcl': charm = True
            m1 = re.match(r'do (getchar|inputto) 0 ', exp[1]) if exp[0] == 'PI' else None
            oneshot = ('CHAR' if m1.group(1) == 'getchar' else 'INPUT') if m1 else None
    # command() is not limited by turns: each 'do cmd a;cmd b;cmd c' yields its three commands in the same cycle
    for c, stream in sent.items():
        want = re.findall(rb'do cmd (x\d+_\d+a);cmd (x\d+_\d+b);cmd (x\d+_\d+c)\r\n', stream)
        have = [t for cyc, t in cmdx.get(c, [])]
        nsrv = len([1 for cyc, kind, text in served.get(c, []) if text.startswith('do cmd x')])
        for tri in want[:nsrv]:
            for t in tri:
                if t.decode() not in have:
                    v.append(Violation(PROP, 'command-efun', 'conn %d: command(%s) issued from LPC was not executed' % (c, t.decode()), PROP + '/command-efun/not-executed'))
                    return v
    return v


def summarize(plan, res):
    percyc = {}
    for e in res.events:
        if e.kind == 'R':
            w = e.rest.split(' ')
            if w[0] in ('PI', 'CHAR', 'INPUT'): percyc.setdefault(e.cycle, []).append(w[1])
    multi = sum(1 for c, l in percyc.items() if len(set(l)) > 1)
    slots = [e.kv().get('slot') for e in res.events if e.kind == 'user']
    key = hashlib.sha256((' '.join('%d:%s' % (c, ','.join(sorted(l))) for c, l in sorted(percyc.items())) + ' '.join(s for s in slots if s)).encode()).hexdigest()[:16]
    return {'nontrivial': multi > 0, 'abstract': key, 'probes': {'cycles_with_several_users_served': multi, 'max_users_served_in_a_cycle': max([len(set(l)) for l in percyc.values()] or [0])}}
