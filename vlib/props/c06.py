# C06 - reference counts are exact: no leaks, nothing freed while referenced.
# Engine W-loop: the same seeded scenario of value plumbing is executed eight times in one driver life, each time followed by
# destructing what it created; the driver's allocation counters after round 3 and after round 7 must be identical (slope
# zero), every value read back must be intact, and the sanitizer must stay silent.  Errors are injected into the scenario at
# the same instruction in every round.
import re, hashlib
from ..core import Plan, Violation, generic_crash_violations
from ..world import *

PROP = 'C06'
LEVEL = 'exploration'
RULE = ('one run = eight identical rounds in one driver life; a round = seeded value plumbing by a user object and two helper objects: '
        'build arrays, mappings, strings, buffers, class instances, function pointers (plain, bound arguments, functional, anonymous), '
        'nested and self-referencing containers, cloned objects; store them in variables, in each other, in other objects, in pending '
        'call_outs and input_to carry-over arguments; pass them through copying/sorting/filtering/mapping/printing/saving efuns, '
        'operators, foreach, catch/throw with the value on the stack, erroring callbacks; share one value between more than 65535 '
        'holders; optionally an LPC error injected at instruction k of the round (same k each round); then clear everything, remove or '
        'fire the call_outs, finish the input_to, destruct the helpers. non-trivial = at least four different value kinds were built and '
        'one was shared; distinct = distinct op sequence.')
RULE += (' Later additions: functionals made by the only object of a program of its own and dropped a command after that object is gone (op mkown); values through damaged restores (texts cut at three places, a save file naming the variable twice).')
COMPONENTS = {'real': ['lib/lpc/array.c', 'lib/lpc/mapping.c', 'src/stralloc.c', 'lib/lpc/buffer.c', 'lib/lpc/class.c', 'lib/lpc/functional.c', 'lib/lpc/object.c', 'lib/efuns (call_out, input_to, copy, sort_array, filter, map, sprintf, save_variable, ...)',
                       'src/interpret.c', 'src/simulate.c destruct/remove_destructed_objects', 'src/backend.c', 'src/comm.c'],
              'stub': ['kernel sockets/clock/timer (simulated)'],
              'hook': ['per-instruction callback (NEOLITH_VERIF) for injected errors; the counters are read from the driver globals']}
ASSUMPTIONS = ['self-referencing containers are un-cycled by the scenario before they are dropped (cycles are not collectable by design)',
               'conservation is judged on the driver counters (arrays, array slots, mappings, mapping nodes, shared strings, malloced strings, objects, programs, sentences, object lists); the heap byte count is compared too and reported as its own class',
               'rounds 1-4 warm caches; a leak is live heap bytes (ASan allocator) strictly growing over rounds 5, 6, 7, 8; object/program counts must be equal after rounds 5 and 8']

KINDS = ['arr', 'map', 'str', 'buf', 'cls', 'fp', 'fpb', 'fpl', 'fpa', 'nest', 'obj']
USES = ['copy', 'add', 'sub', 'and', 'slice', 'sort', 'filter', 'map', 'keys', 'sprintf', 'save', 'implode', 'foreach', 'eval', 'catch', 'throw', 'member', 'unique', 'alloc', 'err', 'deep', 'savecut1', 'savecut2', 'savecut3', 'restdup']
ROUNDS = 8


def gen(rng, tier, i):
    p = Plan()
    p.file('mcfg.h', mcfg({}))
    p.cfg('Port', '4000:telnet')
    p.cfg('MaxEvaluationCost', 8000000)
    p.cfg('MaxArraySize', 20000)
    p.opt('fault_exempt_master', 1)
    p.opt('max_instr', 200000000)
    p.cycle(connect(0, 0))
    p.cycle(send(0, 'do name u0;' + ';'.join('clone /vobj w%d' % k for k in range(9)) + '\r\n'))
    slots = []
    ops = []
    actors = ['', 'as a ', 'as b ']
    n = rng.randint(4, 14 if tier == 'quick' else 30)
    used_itv = False; used_cov = False; objslots = []; cyc = []
    kinds_used = set(); shared = False
    many = rng.random() < (0.06 if tier == 'quick' else 0.25)
    for k in range(n):
        r = rng.random()
        act = rng.choice(actors)
        if r < 0.35 or not slots:
            s = 's%d' % len(slots); kind = rng.choice(KINDS)
            if act != '': kind = rng.choice([x for x in KINDS if x != 'obj'])
            ops.append('%smk %s %s %d' % (act, s, kind, rng.choice((0, 1, 2, 5, 17, 64))))
            slots.append((s, act, kind)); kinds_used.add(kind)
            if kind == 'obj': objslots.append(s)
        else:
            free = [x for x in slots if (x[1], x[0]) not in cyc]
            if not free: continue
            s, act, kind = rng.choice(free)
            if r < 0.45:
                older = [x for x in slots[:[y[0] for y in slots].index(s)] if x[1] == act]     # only older values go into newer containers: no cycles
                if older: ops.append('%sput %s %s' % (act, s, rng.choice(older)[0]))
            elif r < 0.50 and kind in ('arr', 'map', 'nest'):
                ops.append('%scyc %s' % (act, s)); cyc.append((act, s))
            elif r < 0.60:
                ops.append('%sshare %s %s' % (act, s, rng.choice(('a', 'b', 'u0')))); shared = True
            elif r < 0.68:
                ops.append('%s%s %s %d' % (act, rng.choice(('cov', 'covf')), s, rng.randint(1, 3))); used_cov = True
            elif r < 0.72 and act == '' and not used_itv:
                ops.append(('itv %s' if rng.random() < 0.6 else 'itve %s') % s); used_itv = True
            elif r < 0.76 and (act, s) not in cyc:
                ops.append('%sdrop %s' % (act, s))
            elif r < 0.82:
                ops.append('%srb %s' % (act, s))
            else:
                ops.append('%suse %s %s' % (act, s, rng.choice(USES)))
    free = [x for x in slots if (x[1], x[0]) not in cyc]
    many = many and bool(free)
    if many:
        s, act, kind = rng.choice(free)
        p.meta['many_kind'] = kind
        ops.append('%smany %s 1000 %d' % (act, s, rng.choice((66, 70, 132))))
        ops.append('%srb %s' % (act, s)); ops.append('%sdrop many%s' % (act, s)); ops.append('%srb %s' % (act, s))
        ops.append('%suse %s copy' % (act, s))
    if rng.random() < 0.25:
        # the command giver destructs itself inside its own command, then another object starts a call_out (which remembers the command giver)
        ops = [o for o in ops if not o.startswith('as a cyc ')]     # a is destructed inside the round: it could not undo a cycle
        cyc = [c for c in cyc if c[0] != 'as a ']
        # b defines the action, a is the living inside b that uses it: b's function runs with a as command giver, destructs a, then starts a call_out
        ops += ['as b mk sg arr 3', 'sc b init addx', 'as a ec', 'move a b', 'sc b x dest tp,%s sg %d' % (rng.choice(('cov', 'covf')), rng.randint(1, 2)), 'as a cmd x']
        used_cov = True
    if rng.random() < 0.3:
        # a functional that outlives every object of the program it belongs to: made early, dropped (or cleared with the rest)
        # in a later command, after the driver has finished off the destructed maker
        act = rng.choice(actors); s = 'so%d' % len(slots)
        ops.insert(rng.randint(0, len(ops)), '%smkown %s %d' % (act, s, rng.randint(0, 3)))
        tail = ['--']
        if rng.random() < 0.5: tail.append('%suse %s %s' % (act, s, rng.choice(('eval', 'copy', 'sprintf', 'save'))))
        if rng.random() < 0.5: tail.append('%sdrop %s' % (act, s))
        ops += tail
    fk = rng.randint(0, 60 * n) if rng.random() < 0.4 else None
    # half of the faults are not an error at that instruction but a value stack that has only a few free slots from there on:
    # the driver's own "Stack overflow" is then raised by whichever push comes first, often in the middle of an efun
    fkind = 'error' if rng.random() < 0.5 else 'stackroom:%d' % rng.choice((0, 1, 2, 3, 4, 6, 9, 14))
    tmpl = {'ops': ops, 'cyc': [list(c) for c in cyc], 'objslots': objslots, 'fk': fk, 'fkind': fkind, 'used_cov': used_cov, 'used_itv': used_itv,
            'kinds': sorted(kinds_used), 'shared': shared, 'many': bool(many), 'many_kind': p.meta.get('many_kind')}
    return build(tmpl)


NO_CYCLE_SHRINK = True


def build(t):
    """the plan of a template: ROUNDS identical rounds, each followed by clean-up and a memory snapshot"""
    p = Plan()
    p.file('mcfg.h', mcfg({}))
    p.cfg('Port', '4000:telnet')
    p.cfg('MaxEvaluationCost', 8000000)
    p.cfg('MaxArraySize', 20000)
    p.opt('fault_exempt_master', 1)
    p.opt('max_instr', 200000000)
    p.cycle(connect(0, 0))
    p.cycle(send(0, 'do name u0;' + ';'.join('clone /vobj w%d' % k for k in range(9)) + '\r\n'))
    ops = t['ops']
    cmds = []
    cur = 'clone /vobj a;clone /vobj b'
    for o in ops:
        if o == '--': cmds.append(cur); cur = 'rec next'        # a new command: the driver tidies up in between
        elif len(cur) + len(o) > 900: cmds.append(cur); cur = o
        else: cur += ';' + o
    cmds.append(cur)
    used_itv = any(o.startswith('itv ') or o.startswith('itve ') for o in ops)
    used_cov = any(' cov' in (' ' + o) for o in ops)
    cyc = [c for c in t['cyc'] if any(o.startswith('%scyc %s' % (c[0], c[1])) for o in ops)]
    objslots = [s_ for s_ in t['objslots'] if any(o.startswith('mk %s obj' % s_) for o in ops)]
    cleanup = ';'.join(['%suncyc %s' % (c[0], c[1]) for c in cyc] + ['dslot %s' % s_ for s_ in objslots]
                       + ['clearall', 'as a clearall', 'as b clearall', 'rcall', 'as a rcall', 'as b rcall', 'dest a', 'dest b', 'dkids'])
    p.meta['round_cycles'] = []
    for r in range(ROUNDS):
        start = len(p.cycles)
        for ci, c in enumerate(cmds):
            j = p.cycle(send(0, 'do ' + c + '\r\n'))
            if t['fk'] is not None and ci == 0: p.cycles[j].insert(0, fault(t['fk'], t.get('fkind', 'error')))
        if used_cov: p.cycle(tick())
        if used_itv: p.cycle(send(0, 'line for input_to\r\n'))
        jc = p.cycle(send(0, 'do ' + cleanup + '\r\n'))
        if t['fk'] is not None: p.cycles[jc].insert(0, 'fault -1 error')     # a fault that did not fire inside the scenario is disarmed
        p.idle(1)
        p.cycle(send(0, 'do memstat %d\r\n' % r))
        p.meta['round_cycles'].append((start, len(p.cycles)))
    p.idle(1)
    has_many = any(' many ' in (' ' + o) for o in ops)
    p.meta['kinds'] = t['kinds']; p.meta['shared'] = t['shared']; p.meta['many'] = has_many
    if has_many: p.meta['many_kind'] = t.get('many_kind')
    p.meta['tmpl'] = t
    return p


def shrink_args(plan, fails):
    """ddmin over the ops of the round template (every round stays identical and complete)"""
    t = dict(plan.meta['tmpl'])
    if t['fk'] is not None:
        t2 = dict(t); t2['fk'] = None
        if fails(build(t2)): t = t2
    ops = list(t['ops'])
    n = 2
    while len(ops) >= 2:
        chunk = max(1, len(ops) // n)
        reduced = False
        for start in range(0, len(ops), chunk):
            cand = ops[:start] + ops[start + chunk:]
            t2 = dict(t); t2['ops'] = cand
            if cand and fails(build(t2)):
                ops = cand; t['ops'] = ops; n = max(n - 1, 2); reduced = True
                break
        if not reduced:
            if chunk == 1: break
            n = min(n * 2, len(ops))
    t['ops'] = ops
    return build(t)


def urlq(s_):
    import urllib.parse
    return urllib.parse.unquote(s_)


COUNTERS = ['arrays', 'arrsz', 'maps', 'nodes', 'strs', 'strbytes', 'objs', 'progs', 'sent', 'live', 'dlist']   # allocd_strings/allocd_bytes are not gated: the driver's own accounting of malloced strings drifts on every command (observed, see DESIGN.md)


def check(plan, res):
    v = generic_crash_violations(PROP, res)
    many_kind = plan.meta.get('many_kind') if any(' many ' in urlq(s_) or ';many ' in urlq(s_) for c in plan.cycles for s_ in c) else None
    if v:
        if many_kind and many_kind not in ('str',) and any(x.cls.startswith(PROP + '/sanitizer/heap-use-after-free') or x.cls.startswith(PROP + '/sanitizer/attempting-double-free') or x.cls.startswith(PROP + '/sanitizer/SEGV') or 'ref-count' in x.cls for x in v):
            return [Violation(PROP, 'many-holders', 'a %s value referenced from more than 65535 array slots is released while still referenced (%s)' % (many_kind, v[0].detail[:120]), PROP + '/many-holders/refcount-wraps-at-65536')]
        return v
    out = []
    mem = [e.kv() for e in res.events if e.kind == 'mem']
    cm = plan.meta.get('cache')
    if cm:
        if len(mem) < 2: return out
        a, b = mem[0], mem[-1]
        ds, dh = int(b['strs']) - int(a['strs']), int(b['heap']) - int(a['heap'])
        # one name per slot; a name of the kind used here costs well under 64 bytes with its table entry
        if ds > cm['slots'] + 64 or dh > cm['slots'] * 64 + 65536:
            out.append(Violation(PROP, 'leak', 'after %d names called once each in programs that were freed again, %d more strings (%d more heap bytes) are alive than before; the call_other cache has %d slots and holds one name per slot' % (cm['names'], ds, dh, cm['slots']), PROP + '/leak/apply-cache-names'))
        if any(a.get(k) != b.get(k) for k in ('objs', 'live', 'dlist', 'progs')):
            out.append(Violation(PROP, 'leak', 'objects or programs are not back at their count: %s' % ', '.join('%s %s -> %s' % (k, a.get(k), b.get(k)) for k in ('objs', 'live', 'dlist', 'progs') if a.get(k) != b.get(k)), PROP + '/leak/objects'))
        return out
    if len(mem) < ROUNDS: return out          # a round did not complete (the shrinker cut it): nothing to compare
    a, b = mem[ROUNDS - 4], mem[ROUNDS - 1]
    hs = [int(m['heap']) for m in mem[ROUNDS - 4:ROUNDS]]
    diff = [(k, int(a[k]), int(b[k])) for k in COUNTERS if a.get(k) != b.get(k)]
    # a leak grows with every round: live heap bytes after rounds 5 < 6 < 7 < 8 (a cache that grows once does not do that).
    # The driver's own counters are reported with it; counters that drift while the heap stays level are an accounting
    # error in the statistics, not a leak (observed on the unchanged tree, see DESIGN.md) and are only counted as a probe.
    if hs[0] < hs[1] < hs[2] < hs[3]:
        names = '+'.join(k for k, _, _ in diff) or 'heap-only'
        if many_kind == 'str' and set(k for k, _, _ in diff) <= {'strs', 'strbytes', 'arrays', 'arrsz'} and any(k == 'strs' for k, _, _ in diff):
            out.append(Violation(PROP, 'many-holders', 'a string referenced from more than 65535 array slots is never released again: heap %s, %s' % (' -> '.join(map(str, hs)), ', '.join('%s %d -> %d' % d for d in diff)), PROP + '/many-holders/string-becomes-immortal'))
        else:
            out.append(Violation(PROP, 'leak', 'live heap bytes grow with every round (after rounds 5-8: %s); counters: %s' % (', '.join(map(str, hs)), ', '.join('%s %d -> %d' % d for d in diff) or 'unchanged'), PROP + '/leak/' + names))
    elif any(k in ('objs', 'live', 'dlist', 'progs') for k, _, _ in diff):
        out.append(Violation(PROP, 'leak', 'objects or programs are not back at their count: %s' % ', '.join('%s %d -> %d' % d for d in diff), PROP + '/leak/objects'))
    # read-backs and all other records identical between round 3 and round 7 (object numbers aside)
    cyc = plan.meta.get('round_cycles')
    if cyc and len(cyc) >= ROUNDS and not plan.meta.get('cache'):
        def recs(r):
            lo, hi = cyc[r]
            return [re.sub(r'#\d+', '#N', re.sub(r'(h|t)=\d+', r'\1=N', e.rest)) for e in res.events if e.kind == 'R' and lo < e.cycle <= hi and not e.rest.startswith('MEMSTAT') and not e.rest.startswith('DO ')]
        r3, r7 = recs(ROUNDS - 4), recs(ROUNDS - 1)
        if r3 != r7:
            d = next((i for i, (x, y) in enumerate(zip(r3, r7)) if x != y), min(len(r3), len(r7)))
            out.append(Violation(PROP, 'readback', 'round 5 and round 8 behave differently: %r vs %r' % (r3[d:d + 2], r7[d:d + 2]), PROP + '/readback/rounds-differ'))
    return out


def summarize(plan, res):
    ops = []
    for c in plan.cycles:
        for s in c:
            if s.startswith('send'): ops.append(hashlib.sha256(s.encode()).hexdigest()[:6])
    mem = [e.kv() for e in res.events if e.kind == 'mem']
    return {'nontrivial': len(plan.meta.get('kinds', [])) >= 4 and plan.meta.get('shared', False),
            'abstract': hashlib.sha256((' '.join(ops) + ' ' + ' '.join(plan.meta.get('efuns') or [])).encode()).hexdigest()[:16],
            'probes': {'rounds_completed': len(mem), 'faults_fired': len(res.of('fault_fired')), 'stack_overflows_raised_by_the_driver': sum(1 for e in res.events if e.kind in ('R', 'D') and 'tack overflow' in e.rest), 'many_holders_runs': 1 if plan.meta.get('many') else 0,
                       'errors_reported': sum(1 for e in res.events if e.kind == 'R' and e.rest.startswith('ERR ')),
                       'call_out_values_fired': sum(1 for e in res.events if e.kind == 'R' and e.rest.startswith('COVAL ')),
                       'input_to_values': sum(1 for e in res.events if e.kind == 'R' and e.rest.startswith('GOTVAL ')),
                       'statistics_counter_drift_with_level_heap': 1 if (len(mem) >= ROUNDS and mem[ROUNDS - 4]['heap'] == mem[ROUNDS - 1]['heap'] and any(mem[ROUNDS - 4].get(k) != mem[ROUNDS - 1].get(k) for k in ('arrays', 'arrsz', 'maps', 'nodes'))) else 0}}


# ------------------------------------------------------------------ second scenario class: values through the efun surface
EFUN_BLACKLIST = set('''call_other clone_object new bind destruct call_out input_to get_char move_object add_action command remove_action disable_commands enable_commands set_living_name notify_fail restore_object save_object write tell_object shout receive message say tell_room load_object write_file rename write_bytes write_buffer cp link mkdir rm rmdir exec set_heart_beat set_reset snoop throw printf enable_wizard disable_wizard reload_object error flush_messages ed dumpallobj set_eval_limit reset_eval_cost eval_cost max_eval_cost shutdown remove_interactive debug_message dump_prog moncontrol seteuid export_uid resolve tail find_object this_object socket_create socket_bind socket_listen socket_accept socket_connect socket_write socket_close socket_release socket_acquire socket_error socket_address dump_socket_status set_privs set_author trace traceprefix memory_summary rusage function_profile check_memory swap set_malloc_mask query_host_name uptime time ctime localtime random'''.split())


def _parse_spec(path='/repo/lib/efuns/func_spec.c'):
    """efun name -> (min args, max args or None for varargs); side-effect free efuns only"""
    try: text = open(path).read()
    except Exception: return {}
    text = re.sub(r'/\*.*?\*/', '', text, flags=re.S)
    text = '\n'.join(l for l in text.split('\n') if not l.strip().startswith('#'))
    out = {}
    for m in re.finditer(r'([\w \*]+?)\s*\(([^;]*?)\)\s*;', text):
        head = m.group(1).split()
        if len(head) < 2: continue
        names = [h.strip('*') for h in head if re.fullmatch(r'\*?[a-z_][a-z_0-9]*', h)]
        types = {'int', 'void', 'mixed', 'string', 'object', 'mapping', 'function', 'float', 'buffer', 'unknown'}
        names = [n for n in names if n not in types]
        if not names: continue
        name = names[0]
        if name in EFUN_BLACKLIST: continue
        args = [a.strip() for a in m.group(2).split(',')] if m.group(2).strip() else []
        lo = hi = 0; var = False
        for a in args:
            if a == 'void' or a == '': continue
            if a == '...' or a.endswith('...'): var = True; continue
            hi += 1
            if 'void' in a.split('|')[0:1] or re.search(r'\bvoid\b', a) or 'default' in a: continue
            lo = hi
        out[name] = (lo, None if var else hi)
    return out


VALUE_EXPRS = ['0', '1', '-1', '7', '2147483647', '(-2147483647 - 1)', '4294967296', '9223372036854775807', '(-9223372036854775807 - 1)',
               '0.0', '1.5', '-2.5', '1.0e300', '""', '"abc"', '"a b c"', '"%s%d%O"', '"%"', 'repeat_string("xy", 2000)', 'repeat_string("long", 2100)', 'repeat_string("v", 8190)', 'repeat_string("w", 20000)', '"/u/a"', '"0123"', '"ab\\ncd"', '"^(a|b)*$"',
               '({ })', '({ 1, 2, 3 })', '({ "a", "b" })', '({ ({ 1 }), ([ ]) })', 'allocate(100)', '({ this_object() })', '({ "b", "a", "b", 3, 1.5 })',
               '"%5s|%-5s|%|5s"', '"%=20s"', '"%#20s"', '"%*d"', '"%@d"', '"%O%O"', '"%c"', '"%5.2f"', '"%020d"', '"%-=30s"', '"%#-40.3s"', '"%^"', '"%:3d"', '"%\'x\'10s"',
               '"("', '"[a-"', '"a{1,"', '"\\\\"', '".*"', '"(a*)*b"', '"%s %d %*s"', 'explode(repeat_string("ab cd ", 30), " ")', '({ "one", "two three", "four\nfive", "" })',
               '-7', '255', '256', '65535', '65536', '1000000', '-1000000', '"0"', '" "', '"\n"', '"a\tb"', 'repeat_string("ab ", 30)',
               '([ ])', '([ "a" : 1, "b" : ({ 2 }) ])', '([ 1 : "x", 2 : ([ 3 : 4 ]) ])', '(: $1 :)', '(: fp_target :)', '(: $1 + $2 :)', 'allocate_buffer(8)', 'this_object()', 'new(class CK)']


def gen_efuns(rng, tier, i):
    spec = _parse_spec()
    names = sorted(spec)
    nv = 12
    gval = [rng.choice(VALUE_EXPRS) for k in range(nv)]
    setup = ['  g%d = %s;' % (k, gval[k]) for k in range(nv)]

    def tclass(e):
        if e.startswith('([') : return 'map'
        if e.startswith('({') or e.startswith('allocate(') or e.startswith('explode('): return 'arr'
        if e.startswith('"') or e.startswith('repeat_string'): return 'str'
        if e.startswith('(:'): return 'fun'
        if re.fullmatch(r'-?[\d.]+(e\d+)?', e) and ('.' in e): return 'real'
        if 'buffer' in e: return 'buf'
        if e.startswith('this_object') or e.startswith('new('): return 'ob'
        return 'int'
    by_class = {}
    for e in VALUE_EXPRS: by_class.setdefault(tclass(e), []).append(e)
    calls = []
    picked = []
    for _ in range(rng.randint(20, 50 if tier == 'quick' else 120)):
        if not names: break
        if rng.random() < 0.4:
            # operators instead of an efun: operands are held globals or temporaries (cast to mixed, so that the checks
            # happen at run time, inside the catch)
            def opnd():
                r0 = rng.random()
                if r0 < 0.2: return '((mixed)%s)' % rng.choice(('({ })', '({ })', '([ ])', '""', '0', 'allocate(0)'))     # empty operands take the early exits
                return 'g%d' % rng.randrange(nv) if r0 < 0.6 else '((mixed)%s)' % rng.choice(VALUE_EXPRS)
            A, B = opnd(), opnd()
            if rng.random() < 0.5:
                # both operands of one type: the type-specific branch of the operator runs, not its "bad argument" error
                ea = gval[int(A[1:])] if A.startswith('g') else A[8:-1]
                if ea == 'allocate(0)': ea = '({ })'
                same = [k for k in range(nv) if tclass(gval[k]) == tclass(ea)]
                B = 'g%d' % rng.choice(same) if same and rng.random() < 0.5 else '((mixed)%s)' % rng.choice(by_class[tclass(ea)])
            form = rng.choice(('r = %s + %s;', 'r = %s - %s;', 'r = %s & %s;', 'r = %s | %s;', 'r = %s * %s;', 'r = %s / %s;', 'r = %s %% %s;', 'r = %s ^ %s;',
                               'r = %s[%s];', 'r = %s[%s..];', 'r = %s[<%s];', 'r = %s[%s..<1];', 'r = (%s == %s);', 'r = (%s < %s);', 'r = %s << %s;',
                               't = %s; t += %s;', 't = %s; t -= %s;', 't = %s; t &= %s;', 't = %s; t |= %s;', 't = %s; t *= %s;', 't = %s; t /= %s;',
                               't = %s; t[0..1] = %s;', 't = %s; t[1..<1] = %s;', 't = %s; t[<2..] = %s;', 't = %s; t[0] = %s;', 't = %s; t[<1] = %s;',
                               't = %s; t["k"] = %s;', 't = %s; t[0..0] = %s;', 'r = bind(%s, %s);', 't = %s; r = bind(t, load_object("/mk")); r = %s;', 't = %s; r = evaluate(bind(t, load_object("/mk")), %s);', 'r = -%s + !%s;', 'r = %s ? %s : 0;', 'r = %s && %s;',
                               't = %s; t[0][0] = %s;', 't = %s; t->a = %s;', 'mkck(%s)->a = %s;', 'mkck(%s)->a += %s;', 'r = mkck(%s)->a; r = %s;', 'r = sizeof(%s - %s);', 't = %s; t++; t = %s; t--;'))
            if 'bind(t' in form:
                funs = [k for k in range(nv) if tclass(gval[k]) == 'fun']
                A = 'g%d' % rng.choice(funs) if funs and rng.random() < 0.6 else '((mixed)%s)' % rng.choice(by_class['fun'])
            if re.search(r't(\[[^.\]]*\])+ = %s|t->a = %s', form):
                # storing a container into itself would build a reference cycle (counts cannot come back): element stores take scalars
                B = '((mixed)%s)' % rng.choice(('0', '7', '-1', '1.5', '"abc"', '"%s%d"', 'repeat_string("xy", 200)', '65536'))
            calls.append('  catch { ' + (form % (A, B)) + ' };'); picked.append('op:' + form.split('%s')[1].strip()[:6] if False else 'operator')
            continue
        n = rng.choice(names); lo, hi = spec[n]
        cnt = rng.randint(lo, (hi if hi is not None else lo + 2))
        args = ', '.join('g%d' % rng.randrange(nv) for _ in range(cnt))
        calls.append('  catch(r = %s(%s));' % (n, args)); picked.append(n)
    src = ('inherit "/script";\nmixed ' + ', '.join('g%d' % k for k in range(nv)) + ';\nvoid create() { seteuid(getuid()); }\n'
           'class CK mkck(mixed v) { class CK c; c = new(class CK); c->a = v; return c; }\n'      # an instance nobody else holds
           'void setup() {\n' + '\n'.join(setup) + '\n}\n'
           'void run_efuns() {\n  mixed r, t;\n' + '\n'.join(calls) + '\n}\n'
           'void clearg() { ' + ' '.join('g%d = 0;' % k for k in range(nv)) + ' }\n')
    p = Plan()
    p.file('mcfg.h', mcfg({}))
    p.file('c6/e.c', src)
    p.cfg('Port', '4000:telnet')
    p.cfg('MaxEvaluationCost', 8000000)
    p.cfg('MaxArraySize', 20000)
    p.cfg('MaxInheritDepth', 4)
    p.opt('fault_exempt_master', 1)
    p.opt('max_instr', 200000000)
    p.cycle(connect(0, 0))
    p.cycle(send(0, 'do name u0;call /c6/e setup\r\n'))
    p.meta['round_cycles'] = []
    # in a third of the plans the value stack runs out at one (per plan fixed) instruction of run_efuns(), the same in every round
    sfk = (rng.randint(8, 8 + 5 * len(calls)), rng.choice((0, 0, 1, 1, 2, 3, 4, 6, 9))) if rng.random() < 0.33 else None
    for r in range(ROUNDS):
        start = len(p.cycles)
        p.cycle(send(0, 'do call /c6/e setup\r\n'))
        j = p.cycle(send(0, 'do call /c6/e run_efuns\r\n'))
        if sfk: p.cycles[j].insert(0, fault(sfk[0], 'stackroom:%d' % sfk[1]))
        j = p.cycle(send(0, 'do call /c6/e clearg\r\n'))
        if sfk: p.cycles[j].insert(0, 'fault -1 error')
        p.idle(1)
        p.cycle(send(0, 'do memstat %d\r\n' % r))
        p.meta['round_cycles'].append((start, len(p.cycles)))
    p.idle(1)
    p.meta['kinds'] = ['efun'] * 4; p.meta['shared'] = True; p.meta['many'] = False
    p.meta['efuns'] = picked
    p.meta['tmpl'] = None
    return p


def _cache_slots():
    try:
        m = re.search(r'#define\s+APPLY_CACHE_BITS\s+(\d+)', open('/repo/lib/efuns/options.h').read())
        return 1 << int(m.group(1))
    except Exception:
        return 2048


def gen_cache(rng, tier, i):
    """apply-cache accounting.  The call_other cache holds one reference on a function name per slot, so whatever the
    history, the strings it keeps alive are at most as many as it has slots.  Each pass loads a program whose function names
    exist nowhere else, calls every one of them by name (one cache entry each) and frees the program again; the passes together
    insert three to four times as many names as there are slots.  Strings alive at the end minus strings alive before the
    first pass must stay below the slot count (plus a small allowance for the interpreter's own bounded caches)."""
    slots = _cache_slots()
    nf = rng.choice((120, 200, 300))
    passes = (rng.choice((3, 4)) * slots) // nf + 1
    def prog(k):
        return ''.join('int f%03d_%03d() { return %d; }\n' % (k, j, j) for j in range(nf)) + 'void create() { }\n'
    drv = ('inherit "/script";\nvoid create() { seteuid(getuid()); }\n'
           'void go(string ks, string ns) {\n  object o; int j, k, n; k = to_int(ks); n = to_int(ns);\n  o = load_object("/c6/r");\n'
           '  for (j = 0; j < n; j++) call_other(o, sprintf("f%03d_%03d", k, j));\n'
           '  for (j = 0; j < n; j += 7) call_other(o, sprintf("f%03d_%03d", k, j));\n  destruct(o);\n}\n')
    p = Plan()
    p.file('mcfg.h', mcfg({}))
    p.file('c6/cd.c', drv)
    p.cfg('Port', '4000:telnet')
    p.cfg('MaxEvaluationCost', 8000000)
    p.opt('fault_exempt_master', 1)
    p.opt('max_instr', 400000000)
    p.cycle(connect(0, 0))
    p.cycle(send(0, 'do name u0\r\n'))
    def one(k):
        p.cycle('writefile c6/r.c %s' % enc(prog(k)), send(0, 'do call /c6/cd go %d %d\r\n' % (k, nf)))
        p.idle(1)
    one(0); one(1)                       # everything that is set up once is set up here
    p.cycle(send(0, 'do memstat 0\r\n'))
    for k in range(passes): one(2 + k)
    p.cycle(send(0, 'do memstat 1\r\n'))
    p.idle(1)
    p.meta['kinds'] = ['cache'] * 4; p.meta['shared'] = True; p.meta['many'] = False
    p.meta['tmpl'] = None; p.meta['cache'] = {'slots': slots, 'names': passes * nf, 'nf': nf}
    p.meta['keep_cycles'] = len(p.cycles)
    return p


_gen_values = gen


def gen(rng, tier, i):
    # one scenario in four sends values through the efun surface instead of the scripted plumbing
    import os
    if os.environ.get('C06_CACHE_ONLY') or rng.random() < 0.04: return gen_cache(rng, tier, i)
    if rng.random() < (1.0 if os.environ.get('C06_EFUNS_ONLY') else 0.35): return gen_efuns(rng, tier, i)
    return _gen_values(rng, tier, i)


_shrink_values = shrink_args


def _shrink_efun_program(plan, fails):
    """ddmin over the statements of run_efuns() in the generated program (the plan's rounds stay as they are)"""
    hi = next((k for k, h in enumerate(plan.header) if h.startswith('file ' + enc('c6/e.c') + ' ')), None)
    if hi is None: return plan
    src = dec(plan.header[hi].split(' ')[2]).decode('latin-1')
    m = re.search(r'(void run_efuns\(\) \{\n  mixed r, t;\n)(.*?)(\n\}\nvoid clearg)', src, re.S)
    if not m: return plan
    stmts = m.group(2).split('\n')

    def build(lst):
        q = plan.copy()
        q.header[hi] = 'file %s %s' % (enc('c6/e.c'), enc(src[:m.start(2)] + '\n'.join(lst) + src[m.end(2):]))
        return q
    n = 2
    while len(stmts) >= 2:
        chunk = max(1, len(stmts) // n); reduced = False
        for st in range(0, len(stmts), chunk):
            cand = stmts[:st] + stmts[st + chunk:]
            if cand and fails(build(cand)):
                stmts = cand; n = max(n - 1, 2); reduced = True; break
        if not reduced:
            if chunk == 1: break
            n = min(n * 2, len(stmts))
    return build(stmts)


def shrink_args(plan, fails):
    if plan.meta.get('cache'): return plan
    if plan.meta.get('tmpl') is None: return _shrink_efun_program(plan, fails)
    return _shrink_values(plan, fails)
