# C04 - every evaluation is bounded by the configured limits.
# Engine W-loop: real interpreter/backend under randomised limit configurations; monitors at every instruction.
import re, hashlib
from ..core import Plan, Violation, generic_crash_violations, enc, dec
from ..world import *

PROP = 'C04'
LEVEL = 'exploration'
RULE = ('one evaluation = one driver life under a seeded limit configuration (MaxEvaluationCost 3000-40000, MaxCallDepth 16-60, '
        'StackSize 150-1000, MaxArraySize/MaxMappingSize/MaxStringLength/MaxBufferSize 64-70000) in which spenders that are infinite by '
        'construction (every loop form, direct/mutual recursion, recursion through function pointers, efun callbacks, call_other and '
        'catch) and unbounded builders (doubling strings/arrays/mappings/buffers through operators and efuns) run as user commands, '
        'heart beats, call_outs, input_to callbacks, logon and create(), with 0-3 LPC catch levels around them. non-trivial = at least '
        'one limit error was raised; distinct = distinct (spender/builder kind, task kind, catch depth, limit class) combinations.')
RULE += (' Later additions: spenders that catch an error per turn, recursion through array literals, a per-evaluation instruction monitor (configured cost plus one refill per raised limit error), masters whose handler completes a catch.')
COMPONENTS = {'real': ['src/interpret.c', 'src/frame.c', 'src/stack.c', 'src/error_context.c', 'src/backend.c', 'lib/lpc/array.c', 'lib/lpc/mapping.c', 'lib/lpc/buffer.c', 'lib/efuns/string.c', 'lib/efuns/sprintf.c'],
              'stub': ['kernel sockets/clock/timer (simulated)'], 'hook': ['per-instruction callback: call depth, value-stack height and size of the value on top of the stack']}
ASSUMPTIONS = ['set_eval_limit/reset_eval_cost are excluded (documented privileged override)',
               'the size invariant is observed on the value on top of the stack at every instruction and on builder results; the builder list is a sample of the operator/efun surface']
SPINS = ['sp_while', 'sp_for', 'sp_dowhile', 'sp_foreach', 'sp_foreach_map', 'sp_foreach_str', 'sp_whiledec', 'sp_loopcond', 'sp_looplocal', 'sp_objname',
         'rc_direct', 'rc_mut_a', 'rc_fp', 'rc_filter', 'rc_map', 'rc_sort', 'rc_unique', 'rc_callother', 'rc_catch', 'rc_catch2', 'sp_catchdiv', 'sp_catcherr', 'sp_catchthrow', 'sp_catchidx', 'sp_catchdest', 'rc_catcherr', 'rc_aggr', 'rc_aggr', 'rc_aggrs', 'rc_args', 'rc_fpargs', 'rc_spread', 'rc_efunfp']
BUILDS = ['str+=', 'str+', 'gstr+=', 'sprintf', 'repeat', 'replace', 'implode', 'arr+=', 'arr+', 'garr+=', 'allocate', 'explode', 'map+', 'mapins',
          'gmapins', 'allocmap', 'allocbuf', 'buf+', 'copy', 'keys', 'strrange', 'arrrange', 'bufrange', 'gstrrange', 'replace5', 'replace1', 'spad', 'spadr',
          'scol', 'imparr', 'strslice', 'mapmul', 'replace_end', 'replace_mid', 'savevar', 'savevar2']


def gen(rng, tier, i):
    p = Plan()
    # a master without error_handler() matters: the handler apply at full call depth would itself hit the limit and mark the error
    r0 = rng.random()
    defs = {'NO_ERROR_HANDLER': 1} if r0 < 0.3 else ({'EH_CATCH': 1} if r0 < 0.45 else ({'EH_CATCH1': 1} if r0 < 0.6 else {}))
    if rng.random() < 0.3: defs['OBJECT_NAME_SPIN'] = 1
    p.file('mcfg.h', mcfg(defs))
    p.cfg('Port', '4000:telnet')
    lim = {'MaxEvaluationCost': rng.choice((3000, 6000, 20000, 40000)), 'MaxCallDepth': rng.choice((16, 17, 20, 25, 30, 31, 60)),
           'StackSize': rng.choice((150, 300, 1000)), 'MaxArraySize': rng.choice((64, 500, 15000, 70000)),
           'MaxMappingSize': rng.choice((64, 500, 15000)), 'MaxStringLength': rng.choice((600, 4000, 70000)),
           'MaxBufferSize': rng.choice((64, 2000, 70000))}
    for k, vv in lim.items(): p.cfg(k, vv)
    p.opt('c04_monitor', 1)
    p.opt('max_instr', 3000000)
    p.opt('max_rec', 0)
    p.opt('epoll_seed', rng.randint(1, 1 << 30))
    nid = [0]

    def cmd(text, c=0): p.cycle(send(c, 'do ' + text + '\r\n'))

    def spender():
        nid[0] += 1
        k = rng.choice(SPINS)
        nc = rng.choice((0, 0, 1, 2, 3))
        return 'spin %d %s' % (nid[0], k) if nc == 0 else 'cspin %d %d %s' % (nid[0], nc, k)

    def builder():
        nid[0] += 1
        return 'build %d %s' % (nid[0], rng.choice(BUILDS))

    p.cycle(connect(0, 0)); p.cycle(connect(0, 1))
    cmd('name u0'); cmd('name u1', 1)
    cmd('clone /vobj a;clone /vobj b')
    for _ in range(rng.randint(2, 8)):
        r = rng.random()
        op = spender() if rng.random() < 0.6 else builder()
        if r < 0.4: cmd(op)
        elif r < 0.55: cmd('sc a hb at 1 %s' % op.replace(';', ',')); cmd('hb a 1'); p.cycle(tick()); cmd('hb a 0')
        elif r < 0.7: cmd('co q%d 1 %s' % (nid[0], op)); p.cycle(tick()); p.cycle(tick())
        elif r < 0.8: cmd('inputto 0 %s' % op); p.cycle(send(0, 'answer\r\n'))
        elif r < 0.9: cmd('setcs %s;clone /vobj' % op.replace(';', ','))
        else: cmd('as a %s' % op)
        if rng.random() < 0.3: p.cycle(tick())
    cmd('echo PING1', 1)
    cmd('echo PING0')
    p.cycle(tick()); p.idle(2)
    return p


def check(plan, res):
    v = []
    g = generic_crash_violations(PROP, res)
    for x in g:
        if x.oracle == 'hang': x.cls = PROP + '/unbounded/run-did-not-end'
    # monitor reports
    seen = set()
    for e in res.events:
        if e.kind == 'V' and e.rest.startswith('C04.'):
            w = e.rest.split(' ')
            what = w[0][4:]
            kv = e.kv()
            # which builder was running?
            key = what
            if key in seen: continue
            seen.add(key)
            v.append(Violation(PROP, what, 'limit exceeded during evaluation: %s' % e.rest, PROP + '/' + what.replace('.', '/') + '/' + _current_builder(res, e)))
    if g: return v + g
    lim = {}
    for h in plan.header:
        t = h.split(' ')
        if t[0] == 'cfg' and t[1].startswith('Max') or t[0] == 'cfg' and t[1] == 'StackSize': lim[t[1]] = int(dec(t[2]))
    spins = {}
    for idx, e in enumerate(res.events):
        if e.kind != 'R': continue
        w = e.rest.split(' ')
        if w[0] == 'SPIN': spins[w[2]] = (idx, w[3], w[4] if len(w) > 4 else 'catch0')
        elif w[0] == 'U' and len(w) > 2 and w[2].startswith('SURV'):
            sid = w[2][4:]
            kind = spins.get(sid, (0, '?', '?'))
            v.append(Violation(PROP, 'survived', 'the statement after spender %s (%s, %s) ran: %s' % (sid, kind[1], kind[2], e.rest[:120]),
                               PROP + '/catch-swallowed-limit-error/' + ('recursion' if kind[1].startswith('rc_') else 'evalcost')))
        elif w[0] == 'BUILT':
            kv = dict(t.split('=', 1) for t in w[3:7] if re.fullmatch(r'(size|gs|ga|gm)=-?\d+', t))
            kind = w[2]
            for fld, val in kv.items():
                n = int(val)
                if n < 0: continue
                limit = _limit_for(kind, fld, lim)
                if limit and n > limit:
                    v.append(Violation(PROP, 'size', 'builder %s left a value of size %d (limit %d) in %s' % (kind, n, limit, fld), PROP + '/size/result/' + kind))
    # every spender ends in a reported limit error
    reports = [(i, e.rest) for i, e in enumerate(res.events) if (e.kind == 'R' and e.rest.startswith('ERR ')) or e.kind == 'D']
    for sid, (idx, kind, nc) in spins.items():
        if not any(i > idx and re.search(r'Too long evaluation|Too deep recursion|tack overflow|eval_cost too big|catch too deep|catch eval cost', t) for i, t in reports):
            v.append(Violation(PROP, 'unreported', 'spender %s (%s) ended without a reported limit error' % (sid, kind), PROP + '/limit-error-not-reported'))
    # the backend serves the next task normally
    tx = res.tx()
    sent_ping = {}
    for ci, cyc in enumerate(plan.cycles):
        for st in cyc:
            op, a = parse_step(st)
            if op == 'send' and b'echo PING' in dec(a[1]): sent_ping[int(a[0])] = ci
    for c, ci in sent_ping.items():
        if len(plan.cycles) - ci >= 3 and ('PING%d' % c).encode() not in bytes(tx.get(c, b'')):
            v.append(Violation(PROP, 'liveness', 'user %d not served after the spenders' % c, PROP + '/liveness/not-served'))
    return v


def _current_builder(res, ev):
    last = 'unknown'
    for e in res.events:
        if e is ev: break
        if e.kind == 'R':
            w = e.rest.split(' ')
            if w[0] == 'BUILD': last = w[3]
            elif w[0] == 'BUILT': last = 'after-' + w[2]
            elif w[0] == 'SPIN': last = w[3]
    return last


def _limit_for(kind, fld, lim):
    if fld == 'gs': return lim.get('MaxStringLength')
    if fld == 'ga': return lim.get('MaxArraySize')
    if fld == 'gm': return lim.get('MaxMappingSize')
    if fld == 'size':
        if kind in ('str+=', 'str+', 'gstr+=', 'sprintf', 'repeat', 'replace', 'implode', 'savevar', 'savevar2'): return lim.get('MaxStringLength')
        if kind in ('arr+=', 'arr+', 'garr+=', 'allocate', 'explode', 'copy', 'keys'): return lim.get('MaxArraySize')
        if kind in ('map+', 'mapins', 'gmapins', 'allocmap'): return lim.get('MaxMappingSize')
        if kind in ('allocbuf', 'buf+'): return lim.get('MaxBufferSize')
    return None


def summarize(plan, res):
    kinds = []
    nerr = 0; nrec = 0; ncaught = 0
    task = '?'
    for e in res.events:
        if e.kind == 'D': nrec += 1
        if e.kind == 'R':
            nrec += 1
            if e.rest.startswith('ERR caught=1'): ncaught += 1
            w = e.rest.split(' ')
            if w[0] in ('DO', 'HB', 'CO', 'INPUT', 'CREATE'): task = w[0]
            if w[0] == 'SPIN': kinds.append('%s/%s/%s' % (w[3], w[4] if len(w) > 4 else 'c0', task))
            elif w[0] == 'BUILD': kinds.append('%s/%s' % (w[3], task))
            elif w[0] == 'ERR' and re.search(r'Too long|Too deep|too large|too long|maximum|Illegal|overflow', e.rest): nerr += 1
        elif e.kind == 'D' and re.search(r'Too long|Too deep', e.rest): nerr += 1
    return {'nontrivial': nerr > 0, 'abstract': hashlib.sha256(' '.join(sorted(set(kinds))).encode()).hexdigest()[:16], 'probes': {'limit_errors': nerr, 'runs_with_over_2000_records': 1 if nrec > 2000 else 0, 'runs_with_over_8000_records': 1 if nrec > 8000 else 0,
                                                                                                                                           'runs_with_over_20000_records': 1 if nrec > 20000 else 0,
                                                                                                                                           'caught_errors_in_loops': ncaught}}
