# C11 - heart_beat runs once per interval per enabled object; faults stay local.
# Engine W-loop: real call_heart_beat()/set_heart_beat()/error_handler under a plan-driven timer.
import re, hashlib
from ..core import Plan, Violation, generic_crash_violations, enc, dec
from ..world import *

PROP = 'C11'
LEVEL = 'exploration'
RULE = ('one evaluation = one driver life with 1-8 (thorough: up to 40) heart-beat objects and a seeded script of '
        'set_heart_beat(self/other, 0/1/n), destruct (self/other), clone-and-enable and error actions performed inside heart_beat '
        'functions (on a chosen beat) and between ticks, 8-30 ticks; classes: gating (no errors), error (uncaught errors in some '
        'heart beats), midround (the timer fires in the middle of a round). non-trivial = at least one action executed inside a '
        'heart beat or an interval > 1; distinct = distinct abstract traces (per tick: who beat, which actions ran).')
RULE += (" Later additions: failing call_outs between the heart beats of a tick (an error in a call_out is nobody's heart beat); clock steps between ticks.")
COMPONENTS = {'real': ['src/backend.c call_heart_beat/set_heart_beat/query_heart_beat', 'src/error_context.c error_handler', 'src/simulate.c destruct_object', 'lib/efuns/heart_beat.c'],
              'stub': ['timer thread (plan tick steps; midround class: fired from the per-instruction hook)', 'kernel sockets (one telnet client types the between-tick commands)']}
ASSUMPTIONS = ['a tick = one timer expiry processed by the backend (one call_heart_beat round)',
               'cadence is judged per maximal window in which the object stays enabled with one interval, nobody calls set_heart_beat on it and no tick ends in an error; the phase inside the first n ticks is left open unless the window opens between ticks']


def gen(rng, tier, i):
    p = Plan()
    p.file('mcfg.h', mcfg({}))
    p.cfg('Port', '4000:telnet')
    p.cfg('MaxEvaluationCost', 500000)
    p.opt('epoll_seed', rng.randint(1, 1 << 30))
    cls = rng.choice(('gating', 'gating', 'gating', 'error', 'error', 'midround'))
    p.opt('c11_class', cls)
    n = rng.randint(1, 8) if tier == 'quick' or rng.random() < 0.7 else rng.randint(30, 40)
    names = ['h%d' % k for k in range(1, n + 1)]
    extra = [0]

    def cmd(text): p.cycle(send(0, 'do ' + text + '\r\n'))

    def BIG():
        # intervals around the widths an implementation may store them in: such an object must simply not beat within the run
        return rng.choice((5, 5, 5, 255, 256, 32767, 32768, 65535, 65536, 65537, 2147483647))

    def action(inside, me):
        r = rng.random()
        others = [x for x in names if x != me] or [me]
        if r < 0.25: return 'hb %s %d' % (rng.choice(others), rng.choice((0, 0, 1, 1, 2, 3)))
        if r < 0.45: return 'hb me %d' % rng.choice((0, 1, 2, 3, 5, BIG())) if inside else 'hb %s %d' % (rng.choice(names), rng.choice((0, 1, 2, 3, BIG())))
        # reload_object() switches the heart beat off like a destruct does (the object lives on without its tag)
        if r < 0.6: return '%s %s' % ('dest' if rng.random() < 0.75 else 'reload', rng.choice(others))
        if r < 0.7 and inside: return 'dest me' if rng.random() < 0.7 else 'reload me'
        if r < 0.85:
            extra[0] += 1
            t = 'x%d' % extra[0]
            names.append(t)
            return 'clone /vobj %s%shb %s %d' % (t, ',' if inside else ';', t, rng.choice((1, 1, 2)))
        if cls == 'error' and inside: return 'bomb %d %s' % (rng.randint(1, 99), rng.choice(('err', 'err', 'typeerr', 'throw', 'deepforever')))
        return 'rec nop'

    p.cycle(connect(0, 0))
    p.cycle('adv 500000')
    cmd('name u0')
    batch = []
    for t in list(names):
        batch.append('clone /vobj %s' % t)
        if len(batch) == 12: cmd(';'.join(batch)); batch = []
    if batch: cmd(';'.join(batch))
    # some heart-beat objects hold an item whose move_or_destruct() hook - run by the driver in the middle of the holder's
    # destruct - switches the holder's heart beat on again, or (error class) fails and thereby abandons the destruct
    if rng.random() < 0.35:
        for k, t in enumerate(rng.sample(names[:n], min(n, rng.randint(1, 3)))):
            it = 'i%d' % (k + 1)
            hook = 'bomb %d err' % rng.randint(100, 199) if (cls == 'error' and rng.random() < 0.5) else 'hb env %d' % rng.choice((1, 1, 2))
            cmd('clone /vobj %s;move %s %s;sc %s mod %s' % (it, it, t, it, hook))
    # heart-beat scripts: actions on chosen beats
    for t in list(names[:n]):
        if rng.random() < 0.6:
            acts = []
            for _ in range(rng.randint(1, 3)):
                acts.append('at %d %s' % (rng.randint(1, 6), action(True, t)))
            cmd('sc %s hb %s' % (t, ','.join(acts).replace(',hb', '~hb') if False else ','.join(a.replace(',', '~') for a in acts)))
    batch = []
    for t in names[:n]:
        if rng.random() < 0.85: batch.append('hb %s %d' % (t, rng.choice((1, 1, 1, 2, 3))))
        if len(batch) == 12: cmd(';'.join(batch)); batch = []
    if batch: cmd(';'.join(batch))
    if rng.random() < 0.1:
        # the blueprint itself has a heart beat - and is cloned later on
        cmd('hb /vobj %d' % rng.choice((1, 1, 2)))
        p.meta['blueprint_hb'] = True
    nticks = rng.randint(8, 30)
    clock_steps = rng.random() < 0.15     # the wall clock is set back (or far ahead) between ticks: heart beats count ticks, not seconds
    for k in range(nticks):
        if clock_steps and rng.random() < 0.3:
            p.cycle('adv %d' % (rng.choice((-1, -2, -31, -3600, -2000000, 100000)) * 1000000))
        if cls == 'midround' and rng.random() < 0.3:
            p.cycle('firetimer %d 2000000' % rng.choice((20, 60, 150, 400, 900)), tick())
        else:
            p.cycle(tick())
        if rng.random() < 0.3:
            cmd(action(False, 'u0'))
        if cls == 'error' and rng.random() < 0.25:
            # a call_out that fails: it runs in the same tick as the heart beats, after them, and is nobody's heart beat
            extra[0] += 1
            cmd('co zc%d %d bomb %d %s' % (extra[0], rng.choice((1, 2, 3)), 200 + extra[0], rng.choice(('err', 'typeerr', 'throw'))))
        if rng.random() < 0.15:
            cmd('hbs')
    cmd('hbs')
    p.idle(2)
    return p


def check(plan, res):
    v = generic_crash_violations(PROP, res)
    if v: return v
    cls = plan.opts().get('c11_class', 'gating')
    evs = res.events
    # tick index per cycle
    tick_cycles = []
    for e in evs:
        if e.kind == 'step' and re.match(r'&?step (tick|stall) ', e.rest) and (not tick_cycles or tick_cycles[-1] != e.cycle):
            tick_cycles.append(e.cycle)
    tick_of = {c: k for k, c in enumerate(tick_cycles)}
    if not tick_cycles: return v
    mid = any(e.kind == 'timer_mid_evaluation' for e in evs)
    # timeline of per-object events: ('set', tickpos, n) / ('beat', tick) / ('gone', tickpos) ; tickpos = (tick index, inround)
    # position of an event relative to ticks: events in a tick cycle after the tick step are "in round k"; otherwise "after round k-1"
    def pos(e):
        # returns (k, inround): k = index of the last tick that started at or before this event
        k = -1
        for idx, c in enumerate(tick_cycles):
            if c <= e.cycle: k = idx
            else: break
        return k, (e.cycle in tick_of)
    objs = {}
    err_ticks = set()
    last_hb = None
    beats_in_tick = {}
    index_of = {id(e): i for i, e in enumerate(evs)}
    def abandoned(ev):
        # the error report that follows names move_or_destruct among its frames, before anything else is recorded but hook output
        for x in evs[index_of[id(ev)] + 1:]:
            if x.cycle != ev.cycle: return False
            if x.kind != 'R': continue
            w0 = x.rest.split(' ')[0]
            if w0 == 'ERR': return 'move_or_destruct@' in x.rest
            if w0 in ('DEST', 'DO', 'HB', 'CO'): return False
        return False
    for e in evs:
        if e.kind == 'cycle': last_hb = None
        if e.kind == 'R':
            w = e.rest.split(' ')
            if w[0] == 'HB':
                k, inr = pos(e)
                objs.setdefault(w[1], []).append(('beat', k, e.cycle))
                key = (w[1], e.cycle)
                beats_in_tick[key] = beats_in_tick.get(key, 0) + 1
                last_hb = w[1]
            elif w[0] == 'HBSET':
                k, inr = pos(e)
                q = int(w[3][2:]) if w[3].startswith('q=') else 0
                objs.setdefault(w[1], []).append(('set', k, inr, q, int(w[2])))
            elif w[0] == 'RELOAD' and len(w) > 1:
                k, inr = pos(e)
                objs.setdefault(w[1], []).append(('set', k, inr, 0, 0))     # reload_object() = set_heart_beat(ob, 0); the object lives on
            elif w[0] in ('DEST', 'QUIT') and len(w) > 1:
                # a destruct that a move_or_destruct() hook aborted with an error leaves the object as it was
                if w[0] == 'DEST' and abandoned(e): continue
                k, inr = pos(e)
                objs.setdefault(w[1], []).append(('gone', k, inr))
            elif w[0] == 'ERR':
                k, inr = pos(e)
                if inr:
                    err_ticks.add(k)
                    # (a call_out that fails in the same tick is nobody's heart beat)
                    if last_hb and 'trace=co_fire@' not in e.rest: objs.setdefault(last_hb, []).append(('failed', k, True))
            elif w[0] == 'HBS':
                # LPC-visible list must agree with what the records say is enabled (between ticks only)
                k, inr = pos(e)
                listed = dict(t.split(':') for t in w[1:] if ':' in t)
                for tag, tl in objs.items():
                    st = _state_at_end(tl)
                    if tag.startswith('/'): continue
                    if st is None: continue
                    on, n = st
                    if on and tag not in listed:
                        v.append(Violation(PROP, 'listing', 'heart_beats() does not list %s although its heart beat is enabled (interval %d)' % (tag, n), PROP + '/listing/enabled-not-listed'))
                    elif not on and tag in listed:
                        v.append(Violation(PROP, 'listing', 'heart_beats() lists %s although it is disabled/destructed' % tag, PROP + '/listing/disabled-listed'))
                    elif on and int(listed[tag]) != n:
                        v.append(Violation(PROP, 'listing', 'query_heart_beat(%s) = %s, expected %d' % (tag, listed[tag], n), PROP + '/listing/interval'))
        elif e.kind == 'D' and ('Too deep' in e.rest or 'Too long' in e.rest or 'error in mudlib error handler' in e.rest):
            k, inr = pos(e)
            if inr:
                err_ticks.add(k)
                if last_hb and not (objs.get(last_hb) and objs[last_hb][-1][0] == 'failed'):
                    objs.setdefault(last_hb, []).append(('failed', k, True))
    # at most once per tick
    for (tag, c), cnt in beats_in_tick.items():
        if cnt > 1 and not mid:
            v.append(Violation(PROP, 'twice', '%s ran its heart_beat %d times in one tick (cycle %d)' % (tag, cnt, c), PROP + '/cadence/more-than-once-per-tick'))
    last_tick = len(tick_cycles) - 1
    for tag, tl in objs.items():
        # walk the timeline, maintaining the current window
        win = None     # dict(open_k, inround, n, beats=[])
        def close(win, ck, cin, reason):
            if not win: return
            n = win['n']; b = win['beats']
            ok_ticks = [t for t in range(win['open_k'] + (0 if win['inround'] else 1), ck + 1)]
            # split at error ticks: only judge stretches of error-free ticks
            if any(t in err_ticks for t in range(win['open_k'], ck + 1)) or mid:
                # weak checks only
                return
            if b:
                f = b[0]
                lo = win['open_k'] if win['inround'] else win['open_k'] + 1
                hi = win['open_k'] + n
                if not win['inround'] and f != hi:
                    v.append(Violation(PROP, 'phase', '%s enabled with interval %d between ticks %d and %d first beat at tick %d, expected tick %d' % (tag, n, win['open_k'], win['open_k'] + 1, f, hi),
                                       PROP + '/cadence/first-beat-wrong'))
                elif not (lo <= f <= hi):
                    v.append(Violation(PROP, 'phase', '%s enabled with interval %d during tick %d first beat at tick %d' % (tag, n, win['open_k'], f), PROP + '/cadence/first-beat-wrong'))
                for a, c in zip(b, b[1:]):
                    if c - a != n:
                        v.append(Violation(PROP, 'cadence', '%s (interval %d) beat at ticks %d and %d' % (tag, n, a, c), PROP + '/cadence/interval-not-kept'))
                        break
                l = b[-1]
                if l + n < ck or (l + n == ck and not cin and reason != 'end') or (reason == 'end' and l + n <= ck):
                    v.append(Violation(PROP, 'missed', '%s (interval %d) last beat at tick %d but stayed enabled until tick %d' % (tag, n, l, ck), PROP + '/cadence/beat-missed'))
            else:
                hi = win['open_k'] + n
                if hi < ck or (reason == 'end' and hi <= ck):
                    v.append(Violation(PROP, 'missed', '%s enabled with interval %d at tick %d never beat until tick %d' % (tag, n, win['open_k'], ck), PROP + '/cadence/never-beat'))
        dead = False
        for it in tl:
            if it[0] == 'set':
                _, k, inr, q, asked = it
                close(win, k, inr, 'set'); win = None
                if dead: continue
                if q > 0: win = {'open_k': k, 'inround': inr, 'n': q, 'beats': []}
            elif it[0] == 'beat':
                _, k, c = it
                if dead:
                    v.append(Violation(PROP, 'zombie', 'destructed object %s ran heart_beat at tick %d' % (tag, k), PROP + '/called/after-destruct'))
                elif win is None:
                    v.append(Violation(PROP, 'disabled-called', '%s ran heart_beat at tick %d although its heart beat is off' % (tag, k), PROP + '/called/while-disabled'))
                else:
                    win['beats'].append(k)
            elif it[0] == 'gone':
                close(win, it[1], it[2], 'gone'); win = None; dead = True
            elif it[0] == 'failed':
                # the failing object's heart beat must be off now; whoever re-enables it opens a new window
                win = None
        if win: close(win, last_tick, False, 'end')
    if plan.meta.get('blueprint_hb'):
        # clone_object() switches the heart beat of the blueprint it copies off (deliberately, says its comment): every
        # complaint about the blueprint after the first clone made while it was beating is that one finding
        set_on = next((i for i, e in enumerate(evs) if e.kind == 'R' and re.match(r'HBSET /vobj \d+ q=[1-9]', e.rest)), None)
        first_clone = next((i for i, e in enumerate(evs) if e.kind == 'R' and e.rest.startswith('CLONED ') and set_on is not None and i > set_on), None)
        if first_clone is not None and set_on is not None:
            out = []; told = False
            for x in v:
                if re.search(r'(^| )/vobj( |$)', x.detail):
                    if not told:
                        out.append(Violation(PROP, 'blueprint', 'the heart beat of the blueprint /vobj, enabled and never disabled by anybody, stops when the blueprint is cloned (%s)' % x.detail[:120], PROP + '/blueprint/heart-beat-off-after-clone'))
                        told = True
                else: out.append(x)
            v = out
    return v


def _state_at_end(tl):
    on = None; n = 0
    for it in tl:
        if it[0] == 'gone': return False, 0      # tags are never reused: what a hook sets while the object is being destructed dies with it
        if it[0] == 'set': on = it[3] > 0; n = it[3]
        elif it[0] == 'failed': on = False
    if on is None: return None
    return on, n


def summarize(plan, res):
    kinds = []; inside = 0; cur = None
    tickc = set(e.cycle for e in res.events if e.kind == 'step' and ' tick ' in e.rest)
    for e in res.events:
        if e.kind == 'R':
            w = e.rest.split(' ')
            if w[0] in ('HB', 'HBSET', 'DEST', 'RELOAD', 'CLONED', 'ERR'):
                kinds.append(w[0][:3] + (w[1][:3] if w[0] != 'ERR' and len(w) > 1 else ''))
                if w[0] in ('HBSET', 'DEST', 'RELOAD', 'CLONED') and e.cycle in tickc: inside += 1
        elif e.kind == 'step' and ' tick ' in e.rest: kinds.append('|')
    st = res.stats()
    return {'nontrivial': inside > 0, 'abstract': hashlib.sha256(' '.join(kinds).encode()).hexdigest()[:16],
            'probes': {'actions_inside_round': inside, 'timer_mid_round': st.get('timer_mid_evaluation', 0)}}
