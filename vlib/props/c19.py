# C19 - cross-thread notifications are never lost or merged; shutdown terminates.
# Engine T: real lib/async + lib/port code on real threads, serialised by a seeded scheduler that owns every
# synchronisation point (mutex, condvar, eventfd, epoll, stdin, sleep, clock).
import re, hashlib
from ..core import Plan, Violation, enc, dec

PROP = 'C19'
LEVEL = 'exploration'
EXE = 'tsim'
KEEP_OPTS = True
BUILD_TOOLS = ('build_repo.sh', 'build_tsim.sh')
RULE = ('one evaluation = one scenario (2-5 threads, 5-40 operations) under one seeded schedule: classes runtime (producers post '
        'completions with unique key/data and wake-ups while the backend thread waits with timeouts 0/short/long and small or large '
        'max_events), queue (producers enqueue unique payloads under every flag combination, capacity 1-4, one consumer), worker '
        '(create / signal_stop / join(timeout) / destroy with the join placed before the thread first runs, while it runs, after it '
        'exited), timer (start / stop / cleanup with counting callbacks), console (real console worker reading simulated stdin, EOF, '
        'shutdown); spurious condition-variable wake-ups injected in some runs. non-trivial = more than two context switches; '
        'distinct = distinct (scenario class, order of operation completions across threads).')
RULE += (' Later additions: a socket in the simulated event set beside the eventfd (readiness events and completions through the same slots of a static event array); timed join before stop; queue clear with blocked writers.')
COMPONENTS = {'real': ['lib/async/async_runtime_epoll.c', 'lib/async/async_queue.c', 'lib/async/async_worker_pthread.c', 'lib/async/console_worker.c', 'lib/port/timer.cpp', 'lib/port/sync.cpp'],
              'stub': ['pthread mutex/cond/create/join, eventfd, epoll, read(stdin), select, nanosleep, clock_gettime: modelled by the scheduler (interposed from the executable)',
                       'driver globals read by the timer callback in src/backend.c are not linked in this engine']}
ASSUMPTIONS = ['an event whose key was never posted (a wake-up reported as an event, or several wake-ups coalesced) is tolerated; completions must arrive exactly once with their own key and data',
               'data race detection needs a ThreadSanitizer build of the same plans (see DESIGN.md); this check decides the lost/merged/duplicated/termination clauses']


def P(lines, opts):
    p = Plan(); p.meta['raw'] = True
    for k, v in opts.items(): p.header.append('opt %s %s' % (k, v))
    for l in lines: p.cycles.append([l])
    return p


def gen(rng, tier, i):
    cls = rng.choice(('runtime', 'runtime', 'runtime', 'queue', 'queue', 'worker', 'timer', 'console', 'qclear'))
    opts = {'sched_seed': rng.randint(1, 1 << 40), 'c19_class': cls}
    if rng.random() < 0.3: opts['spurious_pct'] = rng.choice((5, 20))
    L = []
    if cls == 'runtime':
        nprod = rng.randint(1, 3)
        data = 0
        for t in range(1, nprod + 1):
            for _ in range(rng.randint(1, 5)):
                r = rng.random()
                if r < 0.7:
                    data += 1; L.append('t %d post %d %d' % (t, rng.randint(1, 6), data))
                elif r < 0.85: L.append('t %d sleep %d' % (t, rng.choice((1, 50, 3000))))
                else: L.append('t %d yield' % t)
        if rng.random() < 0.5:
            w = nprod + 1
            for _ in range(rng.randint(1, 3)):
                L.append('t %d wakeup' % w)
                if rng.random() < 0.5: L.append('t %d sleep %d' % (w, rng.choice((1, 200))))
        nw = rng.randint(2, 6)
        if rng.random() < 0.5:
            # a socket in the same event set: its readiness events and the posted completions come out of the same waits,
            # into the same slots of the backend's event array
            L.insert(0, 't 0 sockadd')
            w = nprod + 2
            for _ in range(rng.randint(1, 4)):
                L.append('t %d ready' % w)
                L.append('t %d sleep %d' % (w, rng.choice((1, 50, 300, 3000))))
            nw += 3
        for _ in range(nw):
            L.append('t 0 wait %d %d' % (rng.choice((0, 1, 20, 20, 500, 10000)), rng.choice((1, 2, 16, 16))))
        for _ in range(3): L.append('t 0 wait 200 16')
    elif cls == 'queue':
        opts['queue_capacity'] = rng.randint(1, 4)
        opts['queue_flags'] = rng.choice((0, 1, 2, 4, 5, 6))
        nprod = rng.randint(1, 3); n = 0
        total = 0
        for t in range(1, nprod + 1):
            for _ in range(rng.randint(1, 6)):
                n += 1; total += 1
                L.append('t %d enq p%d_%d' % (t, t, n))
                if rng.random() < 0.3: L.append('t %d sleep %d' % (t, rng.choice((1, 100))))
        ndeq = rng.randint(0, total + 2)
        for _ in range(ndeq):
            L.append('t 0 deq')
            if rng.random() < 0.4: L.append('t 0 sleep %d' % rng.choice((1, 30, 300)))
        if opts['queue_flags'] & 2 and not opts['queue_flags'] & 1:
            L.append('t 0 drain %d' % total)      # writers block until there is room: the consumer must take everything
        else:
            L.append('t 0 sleep 5000')
            for _ in range(total + 2): L.append('t 0 deq')
        L.append('t 0 qstats')
    elif cls == 'qclear':
        # writers that block on a full queue, and a consumer that only ever empties it with clear(): every clear makes room, so
        # every writer must get through (judged: the scenario terminates)
        opts['queue_capacity'] = rng.randint(1, 3)
        opts['queue_flags'] = 2
        nprod = rng.randint(1, 3); total = 0
        for t in range(1, nprod + 1):
            for _ in range(rng.randint(2, 6)):
                total += 1; L.append('t %d enq c%d_%d' % (t, t, total))
        for _ in range(total + 2):
            L.append('t 0 sleep %d' % rng.choice((50, 300, 2000)))
            L.append('t 0 qclear')
        L.append('t 0 sleep 5000'); L.append('t 0 qclear'); L.append('t 0 qstats')
    elif cls == 'worker':
        if rng.random() < 0.35:
            # the worker procedure returns on its own (before or after anybody asks it to stop)
            opts['worker_exit_after'] = rng.choice((0, 1, 3, 40))
        L.append('t 0 wcreate')
        if 'worker_exit_after' not in opts and rng.random() < 0.3:
            # a timed join before anybody asked the worker to stop (perhaps before its thread has run at all): it must time out
            if rng.random() < 0.5: L.append('t 0 yield')
            L.append('t 0 wjoin %d' % rng.choice((0, 30, 30, 500)))
        r = rng.random()
        if r < 0.4: pass
        elif r < 0.7: L.append('t 0 yield')
        else: L.append('t 0 sleep %d' % rng.choice((10, 5000, 50000)))
        L.append('t 0 wstop')
        if rng.random() < 0.5: L.append('t 0 sleep %d' % rng.choice((1, 2000)))
        L.append('t 0 wjoin %d' % rng.choice((-1, 0, 30, 500)))
        L.append('t 0 sleep 30000'); L.append('t 0 wstate'); L.append('t 0 sleep 30000'); L.append('t 0 wstate')
    elif cls == 'timer':
        L.append('t 0 tinit')
        L.append('t 0 tstart %d' % rng.choice((1000, 20000, 2000000)))
        for _ in range(rng.randint(0, 3)): L.append('t 0 sleep %d' % rng.choice((1, 500, 30000, 2500000)))
        L.append('t 0 tstop'); L.append('t 0 tcount'); L.append('t 0 sleep %d' % rng.choice((50000, 5000000))); L.append('t 0 tcount')
        if rng.random() < 0.5:
            L.append('t 0 tstart %d' % rng.choice((1000, 20000))); L.append('t 0 sleep 100000')
        L.append('t 0 tcleanup'); L.append('t 0 sleep 100000'); L.append('t 0 tcount')
    else:
        opts['queue_capacity'] = rng.choice((2, 8, 256)); opts['queue_flags'] = 1
        L.append('t 0 cwinit')
        nl = rng.randint(1, 5)
        for k in range(nl):
            L.append('t 1 stdin line%d' % k)
            if rng.random() < 0.5: L.append('t 1 sleep %d' % rng.choice((100, 15000, 40000)))
        if rng.random() < 0.5: L.append('t 1 stdin_eof')
        for _ in range(nl + 2):
            L.append('t 0 wait %d 8' % rng.choice((20, 100)))
            L.append('t 0 deq'); L.append('t 0 deq')
        L.append('t 0 cwshutdown %d' % rng.choice((100, 1000))); L.append('t 0 cwdestroy')
    return P(L, opts)


def _evs(res):
    return [(e.cycle, e.vus, e.kind, e.rest) for e in res.events]


def check(plan, res):
    v = []
    o = plan.opts()
    cls = o.get('c19_class', '?')
    if res.exit is None or res.exit[0] != 'exit' or res.exit[1] != 0:
        kind, code = res.exit if res.exit else ('none', 0)
        why = ''
        for e in res.events[-3:]:
            if e.rest.startswith('HANG') or e.rest.startswith('DEADLOCK') or e.rest.startswith('SELF-DEADLOCK'): why = e.rest
        if kind == 'exit' and code in (75, 76):
            v.append(Violation(PROP, 'termination', '%s scenario did not terminate: %s' % (cls, why or 'budget exhausted'), PROP + '/termination/' + cls + '/' + (why.split(' ')[0].lower() or 'hang')))
        elif kind == 'exit' and code == 66:
            m = re.search(r'SUMMARY: ThreadSanitizer: data race (\S+?)(?::\d+)* in (\S+)', res.stderr)
            where = (m.group(1).replace('/repo/', ''), m.group(2)) if m else ('?', '?')
            v.append(Violation(PROP, 'race', 'ThreadSanitizer: data race at %s in %s (%s scenario)' % (where[0], where[1], cls), PROP + '/race/' + where[1]))
        elif kind == 'exit' and code == 77:
            v.append(Violation(PROP, 'sanitizer', 'sanitizer report in %s scenario: %s' % (cls, res.stderr[:200]), PROP + '/sanitizer/' + cls))
        else:
            v.append(Violation(PROP, 'crash', '%s scenario ended abnormally: %s %s' % (cls, kind, code), PROP + '/crash/' + cls))
        return v
    E = _evs(res)
    if cls == 'runtime':
        posted = []; got = []
        for y, t, th, r in E:
            w = r.split(' ')
            if w[0] == 'post' and w[-1] == 'ret=0': posted.append((int(w[1]), int(w[2])))
            elif w[0] == 'wait':
                for x in w[4:]:
                    if ':' in x:
                        k, d = x.split(':'); got.append((int(k), int(d)))
        # a readiness event of the socket is no completion: it carries no key and no data of one
        for y, t, th, r in E:
            w = r.split(' ')
            if w[0] == 'wait':
                bad = [x for x in w[4:] if x.startswith('io=') and x != 'io=0=0']
                if bad:
                    v.append(Violation(PROP, 'merged', 'the readiness event of a socket was delivered with completion key and data %s (posted completions: %s)' % (bad[0][3:].replace('=', '/'), posted), PROP + '/completion/merged-with-io-event')); break
        # ... and readiness is not lost either: a wait called after the socket became readable reports it
        lr = max([i for i, (y, t, th, r) in enumerate(E) if r == 'ready'] or [-1])
        if lr >= 0 and any(r.startswith('sockadd ret=0') for y, t, th, r in E):
            later_calls = [i for i, (y, t, th, r) in enumerate(E) if r.startswith('wait_call') and i > lr]
            later_io = [i for i, (y, t, th, r) in enumerate(E) if r.startswith('wait ') and i > lr and ' io=' in r]
            if len(later_calls) >= 2 and not later_io:
                v.append(Violation(PROP, 'lost', 'the socket became readable, %d waits were called afterwards and none reported it' % len(later_calls), PROP + '/io/readiness-lost'))
        keys = set(k for k, d in posted)
        # "none missing once producers are done and the loop has waited once more": judged only if a wait is
        # called after the last post has returned
        last_post = max([i for i, (y, t, th, r) in enumerate(E) if r.startswith('post ')] or [-1])
        waits_after = [i for i, (y, t, th, r) in enumerate(E) if r.startswith('wait_call') and i > last_post]
        if waits_after:
            for pk in posted:
                if got.count(pk) == 0:
                    v.append(Violation(PROP, 'lost', 'completion key=%d data=%d was posted but never delivered (delivered: %s)' % (pk[0], pk[1], got), PROP + '/completion/lost-or-merged')); break
        for pk in posted:
            if got.count(pk) > 1:
                v.append(Violation(PROP, 'dup', 'completion key=%d data=%d delivered %d times' % (pk[0], pk[1], got.count(pk)), PROP + '/completion/duplicated')); break
        for g in got:
            if g[0] in keys and g not in posted:
                v.append(Violation(PROP, 'altered', 'delivered event key=%d data=%d was never posted' % g, PROP + '/completion/altered')); break
        # a notification already pending when the wait is called makes it return without sleeping out its timeout
        pend = None
        for y, t, th, r in E:
            w = r.split(' ')
            if w[0] == 'wait_call': pend = w[2] == 'pending=1'
            elif w[0] == 'wait' and pend is not None:
                ms = int(w[1][3:]); waited = int(w[3][10:])
                if pend and ms > 5 and waited >= ms * 1000000:
                    v.append(Violation(PROP, 'wakeup', 'a wait of %d ms slept out its timeout although a notification was pending when it was called' % ms, PROP + '/wakeup/ignored')); break
                pend = None
    elif cls == 'queue':
        flags = int(o.get('queue_flags', 0))
        acc = []; rej = []; deq = []
        stats = None
        for y, t, th, r in E:
            w = r.split(' ')
            if w[0] == 'enq' and stats is None: (acc if w[2] == 'ret=1' else rej).append(w[1])
            elif w[0] == 'deq' and w[1] == 'ret=1': deq.append(w[2])
            elif w[0] == 'qstats': stats = dict(x.split('=') for x in w[1:])
        # an enqueue is logged when it returns; the consumer can see the item before the producer is scheduled again,
        # so acceptance anywhere in the log counts for the phantom rule (payloads are unique)
        acc_all = [r.split(' ')[1] for y, t, th, r in E if r.startswith('enq ') and r.split(' ')[2] == 'ret=1']
        for d in deq:
            if d not in acc_all: v.append(Violation(PROP, 'phantom', 'dequeued %s which was never accepted' % d, PROP + '/queue/phantom')); break
        if len(set(deq)) != len(deq): v.append(Violation(PROP, 'dup', 'a message was dequeued twice: %s' % deq, PROP + '/queue/duplicated'))
        for prod in sorted(set(x.split('_')[0] for x in acc)):
            seq = [x for x in deq if x.split('_')[0] == prod]
            order = [x for x in acc if x.split('_')[0] == prod]
            idx = [order.index(x) for x in seq if x in order]
            if idx != sorted(idx): v.append(Violation(PROP, 'fifo', 'messages of producer %s dequeued out of order: %s' % (prod, seq), PROP + '/queue/not-fifo')); break
        missing = [x for x in acc if x not in deq]
        if stats and 'queue_capacity' in o:
            dropped = int(stats['drop']); remaining = int(stats['size'])
            if len(missing) != dropped + remaining:
                v.append(Violation(PROP, 'conservation', '%d accepted, %d dequeued, %d dropped, %d remaining' % (len(acc), len(deq), dropped, remaining), PROP + '/queue/conservation'))
            if not (flags & 1) and dropped:
                v.append(Violation(PROP, 'policy', 'messages dropped although the policy is not drop-oldest', PROP + '/queue/policy'))
            if (flags & 2) and not (flags & 1) and rej:
                v.append(Violation(PROP, 'policy', 'block-writer queue rejected %s' % rej, PROP + '/queue/policy'))
            # the consumer's last deq round comes after a long sleep: everything still queued must come out
            tail_deq = 0
            for y, t, th, r in reversed(E):
                w = r.split(' ')
                if w[0] == 'deq': tail_deq += 1
                elif w[0] not in ('qstats', 'prog_done', 'all_joined', 'STATS', 'END', 'thread_exit', 'enq', 'drain'): break
            if remaining and tail_deq > remaining + 1 and not (flags & 2):
                v.append(Violation(PROP, 'stuck', '%d message(s) left in the queue after the consumer drained it' % remaining, PROP + '/queue/stuck'))
    elif cls == 'worker':
        joined_ok_at = None; exit_seen = False; iters = []
        for y, t, th, r in E:
            w = r.split(' ')
            if w[0] == 'worker_stopping': exit_seen = True
            if w[0] == 'wjoin':
                kv = dict(x.split('=') for x in w[1:])
                ms = int(kv['ms']); took = int(kv['took_ns'])
                if ms >= 0 and took > ms * 1000000 + 50000000:
                    v.append(Violation(PROP, 'join-timeout', 'join(%d ms) returned after %d ms' % (ms, took // 1000000), PROP + '/worker/join-overran-timeout'))
                if kv['ret'] != '1' and exit_seen and ms != 0:
                    v.append(Violation(PROP, 'join', 'the worker procedure had finished before join(%d ms) was called, but the join failed after %d ms' % (ms, took // 1000000), PROP + '/worker/finished-worker-not-joined'))
                if kv['ret'] == '1':
                    joined_ok_at = y
                    if not exit_seen: v.append(Violation(PROP, 'join', 'join reported success before the worker procedure finished', PROP + '/worker/joined-before-exit'))
            if w[0] == 'wstate' and joined_ok_at is not None:
                iters.append(int(w[2][5:]))
            if w[0] == 'worker_start' and joined_ok_at is not None:
                v.append(Violation(PROP, 'after-join', 'worker procedure started after join returned true', PROP + '/worker/ran-after-join'))
        if len(set(iters)) > 1:
            v.append(Violation(PROP, 'after-join', 'worker kept running after join returned true (iterations %s)' % iters, PROP + '/worker/ran-after-join'))
    elif cls == 'timer':
        stopped_at = None
        for y, t, th, r in E:
            w = r.split(' ')
            if w[0] in ('tstop', 'tcleanup'): stopped_at = y
            elif w[0] == 'tstart': stopped_at = None
            elif w[0] == 'timer_cb' and stopped_at is not None:
                v.append(Violation(PROP, 'cb-after-stop', 'timer callback ran after stop/cleanup returned', PROP + '/timer/callback-after-stop')); break
    elif cls == 'console':
        for y, t, th, r in E:
            w = r.split(' ')
            if w[0] == 'cwshutdown':
                kv = dict(x.split('=') for x in w[1:])
                if int(kv['took_ns']) > 3000000000:
                    v.append(Violation(PROP, 'shutdown', 'console worker shutdown took %d ms' % (int(kv['took_ns']) // 1000000), PROP + '/console/shutdown-slow'))
    return v


def summarize(plan, res):
    o = plan.opts()
    order = []
    for e in res.events:
        w = e.rest.split(' ')
        if w[0] in ('post', 'wakeup', 'wait', 'enq', 'deq', 'wjoin', 'wstop', 'worker_start', 'worker_stopping', 'timer_cb', 'tstop', 'stdin', 'cwshutdown'):
            order.append(e.kind + w[0] + (w[2] if w[0] == 'wait' and len(w) > 2 else ''))
    st = {}
    for e in res.events:
        if e.rest.startswith('STATS'): st = dict(x.split('=') for x in e.rest.split(' ')[1:] if '=' in x)
    nontriv = int(st.get('context_switches', 0)) > 2
    return {'nontrivial': nontriv, 'abstract': hashlib.sha256((o.get('c19_class', '') + ' '.join(order)).encode()).hexdigest()[:16],
            'stats': {k: int(v) for k, v in st.items()}, 'probes': {'class_' + o.get('c19_class', '?'): 1, 'eventfd_write_onto_nonzero': int(st.get('eventfd_write_onto_nonzero', 0))}}


def main(tier, seed, args):
    """ASan batch (all oracles) followed by a ThreadSanitizer batch of the same scenario generator (race clause)"""
    import os, json
    from .. import core
    n = args.runs or (20000 if tier == 'quick' else 1000000)
    if args.replay:
        d = json.load(open(args.replay))
        variant = 'tsan' if '/race/' in d.get('violation', {}).get('class', '') else 'asan'
        core.build(variant, tools=BUILD_TOOLS)
        import sys
        mod = sys.modules[__name__]
        return core.run_check(mod, PROP, tier, seed, n, variant=variant, replay=args.replay)
    import sys
    mod = sys.modules[__name__]
    rc1 = core.run_check(mod, PROP, tier, seed, n)
    ev1 = json.load(open(os.path.join(core.ROOT, 'evidence', PROP + '.json')))
    nt = max(300, n // 10) if tier == 'quick' else n // 10
    rc2 = core.run_check(mod, PROP, tier, seed + 7919, nt, variant='tsan')
    ev2 = json.load(open(os.path.join(core.ROOT, 'evidence', PROP + '.json')))
    ev1['coverage']['tsan_batch'] = {'evaluations': ev2['coverage']['evaluations'], 'distinct_nontrivial': ev2['coverage']['distinct_nontrivial'],
                                     'violation_classes': ev2['coverage']['violation_classes'], 'wall_s': ev2['wall_s'],
                                     'note': 'same scenario generator, ThreadSanitizer build of lib/async + lib/port; the simulator is not instrumented and annotates the sync objects it models'}
    ev1['violations'] = ev1.get('violations', 0) + ev2.get('violations', 0)
    ev1['wall_s'] = round(ev1['wall_s'] + ev2['wall_s'], 2)
    json.dump(ev1, open(os.path.join(core.ROOT, 'evidence', PROP + '.json'), 'w'), indent=1)
    return max(rc1, rc2)
