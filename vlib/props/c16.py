# C16 - saved values restore to equal values; saves are atomic; restore is robust.
# Engine W-sweep with the simulated file layer: round trips in the fault-free run, then one run per crash point of a
# save ("the disk stops at mutating call n") and one run per damaged save text.
import re, hashlib, random
from ..core import Plan, Violation, generic_crash_violations, enc, dec
from ..world import *

PROP = 'C16'
LEVEL = 'fault_enumeration'
RULE = ('scenario = seeded set of savable values (int64 extremes, integral/tiny/huge/negative floats, strings over every '
        'escape-worthy byte, nested arrays/mappings/classes, empty containers, shared sub-values, object references, static '
        'variables) written as LPC source; fault-free run: save_variable/restore_variable and save_object/restore_object round '
        'trips compared by a deep LPC comparison; then one run per crash point (every mutating file call of a second save over an '
        'existing good save file fails from call n on, all n) and one run per damaged text (truncation at every byte up to 300 '
        'positions, structural-character replacement, garbage lines) restored with restore_object and restore_variable. '
        'non-trivial = the fault fired or the damaged text was restored; distinct = distinct (scenario, fault kind, position).')
RULE += (' Later additions: crash points and transient errors with torn writes (three shares of the failing write reach the file); crafted texts on which pre-scan and restore pass diverge (junk behind a number, then an unterminated string), as restore_variable input and as a value in a save file; strings with bytes above 0x7f (Latin-1, UTF-8, cut UTF-8 sequences).')
COMPONENTS = {'real': ['lib/lpc/object.c save_object/restore_object/save_svalue/restore_svalue', 'lib/lpc/mapping.c', 'lib/lpc/class.c', 'lib/efuns/variable.c', 'lib/efuns/file_utils.c'],
              'stub': ['file layer: real files in a scratch mudlib, every libc file call intercepted (fopencookie streams make every stdio flush visible); crash = disk stops at call n',
                       'kernel sockets/clock/timer (simulated)']}
ASSUMPTIONS = ['crash model = process crash at a file-call boundary (page cache survives); power-loss reordering is not modelled',
               'floats are compared to the printed precision (%g)', 'object references and static variables must not persist: object references compare as 0 after restore']

INTS = ['0', '1', '-1', '2147483647', '-2147483648', '4294967296', '-4294967296', '9223372036854775807', '(-9223372036854775807 - 1)', '1234567890123']
FLOATS = ['F("3.0")', 'F("0.5")', 'F("-2.25")', 'F("1e-30")', 'F("1e30")', 'F("-0.0")', 'F("123456.789")', 'F("1000000.0")', 'F("0.1")', 'F("7.0")']
SPECIAL = [0x0a, 0x0d, 0x22, 0x5c, 0x09, 0x01, 0x1f, 0x7f, 0x28, 0x29, 0x5b, 0x5d, 0x7b, 0x7d, 0x2c, 0x3a, 0x2f, 0x23, 0x20]


def gen_value(rng, depth=0):
    r = rng.random()
    if depth == 0 and rng.random() < 0.12:
        # many containers in one value: counts around the sizes at which the restore tables grow
        n = rng.choice((32, 64, 128, 128, 256, 256, 512, 1024)) + rng.choice((-2, -1, -1, 0, 0, 1))
        return rng.choice(('wide(%d, %d)', '({ wide(%d, %d) })', '([ "w" : wide(%d, %d) ])')) % (n, rng.randint(0, 2))
    if depth >= 4 or r < 0.45:
        k = rng.random()
        if k < 0.3: return rng.choice(INTS)
        if k < 0.5: return rng.choice(FLOATS)
        if k < 0.9:
            n = rng.choice((0, 1, 1, 2, 5, 20))
            bs = bytes((rng.choice(SPECIAL) if rng.random() < 0.5 else rng.randint(0x20, 0x7e)) for _ in range(n))
            if rng.random() < 0.15:
                # bytes above 0x7f: Latin-1 text, well-formed UTF-8, and the beginnings of UTF-8 sequences that never end
                hi = rng.choice((b'\xe9', b'caf\xe9', b'\xc3\xa9', b'\xe4\xb8\xad', b'\xf0\x9f\x98\x80', b'\xc3', b'\xe4\xb8', b'\xff\xfe', b'\x80', b'a\xe9"b', b'\xe9\\'))
                pos = rng.randint(0, len(bs)); bs = bs[:pos] + hi + bs[pos:]
            return 'S("%s")' % bs.hex()
        if k < 0.95: return 'this_object()'
        return '({ })' if rng.random() < 0.5 else '([ ])'
    if r < 0.7:
        return '({ ' + ', '.join(gen_value(rng, depth + 1) for _ in range(rng.randint(0, 4))) + ' })'
    if r < 0.9:
        items = []
        used = set()
        for _ in range(rng.randint(0, 4)):
            if rng.random() < 0.5:
                key = str(rng.randint(-5, 50))
            else:
                bs = bytes((rng.choice(SPECIAL) if rng.random() < 0.4 else rng.randint(0x61, 0x7a)) for _ in range(rng.randint(1, 4)))
                key = 'S("%s")' % bs.hex()
            if key in used: continue
            used.add(key)
            items.append('%s : %s' % (key, gen_value(rng, depth + 1)))
        return '([ ' + ', '.join(items) + ' ])'
    return 'new(class K, a : %s, b : %s)' % (gen_value(rng, depth + 1), gen_value(rng, depth + 1))


def sv_source(rng, nvals):
    A = [gen_value(rng) for _ in range(nvals)]
    B = [gen_value(rng) for _ in range(nvals)]
    src = ['inherit "/svlib";']
    # now and then one variable has a very long (legal) name: save_object() writes it, restore_object() has to find it again
    G = ['g%d' % i for i in range(nvals)]
    if rng.random() < 0.2:
        j = rng.randrange(nvals); G[j] = 'g%d_%s' % (j, 'n' * rng.choice((90, 96, 97, 98, 120, 200)))
    for i in range(nvals): src.append('mixed %s;' % G[i])
    src.append('static mixed st1;')
    src.append('object gob;')
    src.append('mixed shared;')
    for i, e in enumerate(A): src.append('mixed v%d() {\n return %s;\n}' % (i, e.replace(', ', ',\n  ')))
    for i, e in enumerate(B): src.append('mixed w%d() {\n return %s;\n}' % (i, e.replace(', ', ',\n  ')))
    src.append('void setg(string which) {\n mixed *sh;\n ' + '\n '.join('%s = call_other(this_object(), which + "%d");' % (G[i], i) for i in range(nvals)) +
               '\n st1 = 777; gob = this_object(); sh = ({ 1, "x" }); shared = ({ sh, sh, ([ "k" : sh ]) });\n}')
    src.append('void save(string which, string f) { int r; mixed e; setg(which); e = catch(r = save_object(f)); rec("SAVE " + which + " ret=" + r + " err=" + (e ? replace_string(e, "\\n", "") : "0")); }')
    src.append('void dump(string f) { string t; t = read_file(f); rec("FILE " + f + " " + (t ? hexs(t) : "-")); }')
    src.append('void rest(string f) {\n int r; mixed e; string d;\n ' + '\n '.join('%s = 0;' % G[i] for i in range(nvals)) + '\n st1 = 0; gob = 0; shared = 0;\n'
               ' e = catch(r = restore_object(f));\n rec("REST ret=" + r + " err=" + (e ? replace_string(e, "\\n", "") : "0"));\n'
               + '\n'.join(' d = eqv(strip_obs(v%d()), %s, "g%d");\n rec("RTG v %d " + (d ? "NE " + d : "eq"));\n d = eqv(strip_obs(w%d()), %s, "g%d");\n rec("RTG w %d " + (d ? "NE " + d : "eq"));' % (i, G[i], i, i, i, G[i], i, i) for i in range(nvals))
               + '\n rec("RTS static=" + st1 + " ob=" + (gob ? 1 : 0) + " shared=" +\n  (eqv(({ ({ 1, "x" }), ({ 1, "x" }), ([ "k" : ({ 1, "x" }) ]) }), shared, "sh") ? "NE" : "eq"));\n}')
    src.append('void restd(string f) { int r; mixed e; e = catch(r = restore_object(f)); rec("RESTD ret=" + r + " err=" + (e ? "1" : "0")); }')
    return '\n'.join(src) + '\n'


def gen(rng, tier, i):
    p = Plan()
    p.file('mcfg.h', mcfg({}))
    p.cfg('Port', '4000:telnet')
    p.cfg('MaxEvaluationCost', 5000000)
    p.cfg('MaxReadFileSize', 200000)
    nvals = rng.randint(2, 6)
    p.file('sv.c', sv_source(rng, nvals))
    p.file('svd/keep', 'x')
    p.opt('c16_nvals', nvals)
    p.meta['no_shrink'] = True      # without its save step a restore step still "fails": a shrunk plan would not show the same thing

    def cmd(text): return p.cycle(send(0, 'do ' + text + '\r\n'))

    p.cycle(connect(0, 0))
    for k in range(nvals):
        cmd('call /sv rtv %d' % k)
        cmd('call /sv svtext %d' % k)
    cmd('call /sv save v /svd/o1')
    cmd('call /sv dump /svd/o1.o')
    j = p.cycle('fsarm 1000000', send(0, 'do call /sv save w /svd/o1\r\n'))
    p.opt('c16_cycle', j)
    p.cycle('fsdisarm', send(0, 'do call /sv dump /svd/o1.o\r\n'))
    cmd('call /sv rest /svd/o1')
    p.idle(1)
    return p


def has_fault(plan): return plan.opts().get('c16_fault', '') != ''


def without_fault(plan):
    q = plan.copy()
    q.header = [h for h in q.header if not h.startswith('opt c16_fault')]
    q.cycles = [[('fsarm 1000000' if parse_step(s)[0] == 'fsarm' else s) for s in c if not s.startswith('writefile svd/d.o') and 'restd /svd/d' not in dec(s.split(' ')[2] if s.startswith('send ') else '%').decode('latin-1') and ' rv ' not in dec(s.split(' ')[2] if s.startswith('send ') else '%').decode('latin-1')] for c in q.cycles]
    q.cycles = [c for c in q.cycles if c]
    return q


def _damage(text, j):
    """deterministic damaged variant number j of a save text (bytes)"""
    n = len(text)
    if n == 0: return b'(', 'empty'
    if j < min(n, 300):
        pos = j if n <= 300 else (j * n) // 300
        return text[:pos], 'truncate@%d' % pos
    j -= min(n, 300)
    structural = b'()[]{},:"\\/#\n\r\0'
    pos = (j * 7919) % n
    ch = structural[j % len(structural)]
    return text[:pos] + bytes((ch,)) + text[pos + 1:], 'replace@%d' % pos


GOOD = '({1,2,3,4,5,({"a","b",(["k":({6,7,}),]),}),"z",})'


TORN_SHARES = (30, 500, 970)


# texts in which the size pre-scan and the restore pass take different ways: junk behind a number (the pre-scan skips to the next
# delimiter, the restore pass stops after one character), so that the restore pass meets a quote the pre-scan never saw as the
# start of a string - with escapes and without a closing quote behind it, with text behind the end of the value
CRAFTED = [b'([1:2x"a\\b,])', b'({1x"a,2,3,}) "', b'({1x"a\\",2,})', b'([1x"k\\":2,])', b'(/1x"a\\b,/)', b'(["a":1x"b\\c,])', b'({1,2x"abc,}) "tail', b'({({1x"a,}),2,}) "',
           b'([1:({2x"a\\,}),])', b'({1.5x"a\\b,})', b'({-x"a\\b,})', b'({1x"a,2,3,})', b'([1x"a:2,3:4,]) "', b'(/1x"a,2,/) "', b'({1x"\\', b'([1:2x"\\', b'({0x"a\\\\\\",})']


def with_fault(plan, k, info=None):
    q = plan.copy()
    j = int(q.opts()['c16_cycle'])
    if k >= 40000:
        # a crafted text; odd numbers: the same text as the value of a variable in a save file
        text = CRAFTED[(k - 40000) // 2]
        if (k - 40000) % 2 == 0:
            q.cycles.append([send(0, 'do call /sv rv %s\r\n' % text.hex())])
        else:
            # (under the name of the first variable of the object's own save file)
            lines = [l for l in (bytes.fromhex(info['textB']) if info and info.get('textB') else b'').split(b'\n') if l and not l.startswith(b'#') and b' ' in l]
            if not lines:
                q.cycles.append([send(0, 'do call /sv rv %s\r\n' % text.hex())])
            else:
                q.cycles.append(['writefile svd/d.o %s' % enc(b'#/sv.c\n' + lines[0].split(b' ')[0] + b' ' + text + b'\n'), send(0, 'do call /sv restd /svd/d\r\n')])
        q.cycles.append([send(0, 'do call /sv rvraw %s\r\n' % GOOD)])
        q.idle(2)
        as_file = any(x.startswith('writefile svd/d.o') for x in q.cycles[-4])
        q.opt('c16_fault', ('file' if as_file else 'value') + ':crafted:%d' % (k - 40000))
        return q
    if k < 10000:
        # k < 5000: crash point of the second save (every mutating file call from number k % 1000 on fails);
        # 5000 <= k < 10000: a transient error, only that call fails.  The thousands digit chooses how much of a failing
        # write still reaches the file (a torn write): nothing, or one of TORN_SHARES
        once = k >= 5000; kk = k - 5000 if once else k
        call, t = kk % 1000, kk // 1000
        q.cycles[j] = ['fsarm %d%s%s' % (call, ' once' if once else '', ' torn:%d' % TORN_SHARES[t - 1] if t else '')] + [s for s in q.cycles[j] if parse_step(s)[0] != 'fsarm']
        q.opt('c16_fault', '%s:%d' % ('once' if once else 'crash', call))
        return q
    if k >= 30000:      # a text nested far deeper than anything save_variable() writes
        kind, depth, closed = DEEP[k - 30000]
        q.cfg('MaxStringLength', 2000000)
        q.cycles.append([send(0, 'do call /sv rvdeep %s %d:%d\r\n' % (kind, depth, closed))])
        q.cycles.append([send(0, 'do call /sv rvraw %s\r\n' % GOOD)])
        q.idle(1)
        q.opt('c16_fault', 'value:deep:%s%d%s' % (kind, depth, '' if closed else '-open'))
        return q
    if info is None: return q
    if k < 20000:       # damaged save file
        text = bytes.fromhex(info['textB']) if info.get('textB') else b''
        dmg, what = _damage(text, k - 10000)
        q.cycles.append(['writefile svd/d.o %s' % enc(dmg), send(0, 'do call /sv restd /svd/d\r\n')])
        q.cycles.append([send(0, 'do call /sv rvraw %s\r\n' % GOOD)])     # a good text restored right after the damaged one
        q.idle(1)
        q.opt('c16_fault', 'file:' + what)
        return q
    vals = info.get('svtexts', [])
    if not vals: return q
    idx = (k - 20000) % len(vals)
    text = bytes.fromhex(vals[idx])
    j = (k - 20000) // len(vals)
    per = int(info.get('per_value', 40))
    n = len(text)
    if j < per // 2 or n == 0:      # truncations spread evenly over the whole text
        pos = (j * n) // max(1, per // 2)
        dmg, what = text[:pos], 'truncate@%d' % pos
    else:                           # structural-character replacements spread over the text
        dmg, what = _damage(text, min(n, 300) + (j - per // 2) * 37)
    if len(dmg) > 800: dmg = dmg[:800]      # the command line must stay below what the driver accepts as one line (about 1.7 KiB of hex)
    q.cycles.append([send(0, 'do call /sv rv %s\r\n' % (dmg.hex() or '20'))])
    q.cycles.append([send(0, 'do call /sv rvraw %s\r\n' % GOOD)])     # a good text restored right after the damaged one
    q.idle(1 + len(dmg) // 60)      # a long line takes several reads (the driver asks for a third of the free buffer each time)
    q.opt('c16_fault', 'value:%d:%s' % (idx, what))
    return q


def _recs(res, head): return [e.rest for e in res.events if e.kind == 'R' and e.rest.startswith(head + ' ')]


def base_info(plan, res):
    files = _recs(res, 'FILE')
    texts = [r.split(' ')[2] if len(r.split(' ')) > 2 else '-' for r in files]
    mut = [e.rest for e in res.events if e.kind == 'fs_mut_calls']
    sv = [r.split(' ')[2] for r in _recs(res, 'SVTEXT') if len(r.split(' ')) > 2 and r.split(' ')[2] != '-']
    return {'textA': texts[0] if len(texts) > 0 and texts[0] != '-' else '', 'textB': texts[1] if len(texts) > 1 and texts[1] != '-' else '',
            'mut_calls': int(mut[0]) if mut else 0, 'svtexts': sv, 'per_value': 80, 'rest': _recs(res, 'RTG') + _recs(res, 'RTS') + _recs(res, 'REST')}


DEEP = [(kind, depth, closed) for kind in 'amc' for depth in (20, 24, 25, 26, 27, 40, 300, 5000, 60000) for closed in (1, 0)]


def points(plan, res, tier, rng):
    info = base_info(plan, res)
    pts = list(range(info['mut_calls'] + 1)) if info['textA'] and info['textB'] else []
    pts += [5000 + x for x in range(info['mut_calls'])] if info['textA'] and info['textB'] else []
    if info['textA'] and info['textB']:
        for t in range(1, len(TORN_SHARES) + 1):
            pts += [1000 * t + x for x in range(min(info['mut_calls'], 999))] + [5000 + 1000 * t + x for x in range(min(info['mut_calls'], 999))]
    nB = len(info['textB']) // 2
    ndmg = min(nB, 300) + (40 if tier == 'quick' else 200)
    if tier == 'quick' and ndmg > 120:
        pts += [10000 + x for x in sorted(rng.sample(range(ndmg), 120))]
    else:
        pts += [10000 + x for x in range(ndmg)]
    nv = len(info['svtexts'])
    if nv:
        per = info['per_value']
        pts += [20000 + x for x in range(nv * per)]
    pts += [40000 + x for x in (range(2 * len(CRAFTED)) if tier != 'quick' else sorted(rng.sample(range(2 * len(CRAFTED)), 10)))]
    deepest = [x for x, d in enumerate(DEEP) if d[1] >= 60000 and d[0] in 'am']      # always: these are the ones that recurse furthest
    pts += [30000 + x for x in (range(len(DEEP)) if tier != 'quick' else sorted(set(deepest + rng.sample(range(len(DEEP)), 8))))]
    return pts


def check_base(plan, res):
    v = generic_crash_violations(PROP, res)
    if v: return v
    for r in _recs(res, 'RTV'):
        w = r.split(' ')
        if w[2] == 'NE':
            d = ' '.join(w[3:5])
            kind = re.sub(r'[^a-z]+', '-', w[3].split(':')[-1] if ':' in w[3] else 'x')
            v.append(Violation(PROP, 'roundtrip', 'restore_variable(save_variable(v)) differs: %s' % ' '.join(w[3:])[:200], PROP + '/roundtrip/variable/' + _cls(r)))
        elif w[2] in ('saveerr', 'restoreerr'):
            v.append(Violation(PROP, 'roundtrip', 'round trip of value %s raised: %s' % (w[1], ' '.join(w[2:])[:200]), PROP + '/roundtrip/variable/' + w[2]))
    nv = int(plan.opts().get('c16_nvals', 0))
    if len(_recs(res, 'RTV')) != nv or (_recs(res, 'REST') and (len(_recs(res, 'RTG')) != 2 * nv or not _recs(res, 'RTS'))):
        errs = [e.rest for e in res.events if e.kind == 'R' and e.rest.startswith('ERR ')]
        v.append(Violation(PROP, 'roundtrip', 'the round-trip comparison did not complete (%d of %d RTV, %d of %d RTG records): %s' %
                           (len(_recs(res, 'RTV')), nv, len(_recs(res, 'RTG')), 2 * nv, (errs[-1] if errs else 'no error record')[:200]), PROP + '/roundtrip/comparison-aborted'))
    rest = _recs(res, 'REST')
    if rest and 'ret=1' not in rest[-1]:
        v.append(Violation(PROP, 'restore', 'restore_object of a file just written by save_object failed: %s' % rest[-1], PROP + '/roundtrip/object/restore-failed'))
    for r in _recs(res, 'RTG'):
        w = r.split(' ')
        if w[1] == 'w' and w[3] == 'NE':
            v.append(Violation(PROP, 'roundtrip', 'variable restored by restore_object differs: %s' % ' '.join(w[4:])[:200], PROP + '/roundtrip/object/' + _cls(r)))
    for r in _recs(res, 'RTS'):
        if 'static=0' not in r: v.append(Violation(PROP, 'static', 'a static variable was persisted: %s' % r, PROP + '/roundtrip/static-persisted'))
        if 'ob=0' not in r: v.append(Violation(PROP, 'object', 'an object reference was persisted: %s' % r, PROP + '/roundtrip/object-persisted'))
        if 'shared=eq' not in r: v.append(Violation(PROP, 'shared', 'shared sub-values did not restore to equal values', PROP + '/roundtrip/shared'))
    return v


def _cls(r):
    m = re.search(r':(type|int|float|string|arraysize|mapsize|missing-key|object)', r)
    k = m.group(1) if m else 'other'
    if k == 'type':
        m2 = re.search(r':type (\w+)/(\w+)', r)
        if m2: k = 'type-%s-to-%s' % (m2.group(1), m2.group(2))
    return k


def check_point(plan, res, info):
    v = generic_crash_violations(PROP, res)
    if v: return v
    f = plan.opts().get('c16_fault', '')
    if f.startswith(('crash:', 'once:')):
        stops = res.of('fs_stop')
        files = _recs(res, 'FILE')
        if len(files) < 2 or not info['textA'] or not info['textB']: return v
        after = files[1].split(' ')[2] if len(files[1].split(' ')) > 2 else '-'
        # the old file is never rewritten, so it must be byte-identical; a complete new file may order mapping elements
        # differently from the fault-free run (hash order depends on addresses): same multiset of bytes, and the restore
        # below must yield the new values
        before = files[0].split(' ')[2] if len(files[0].split(' ')) > 2 else '-'
        is_old = after == before      # byte-identical to what this very run had written before
        is_new = after != '-' and sorted(bytes.fromhex(after)) == sorted(bytes.fromhex(info['textB']))
        if not is_old and not is_new:
            v.append(Violation(PROP, 'atomicity', 'save with a failure at mutating file call %s left the save file neither as the previous save nor as the complete new one (%d bytes; old %d, new %d)' %
                               (f.split(':', 1)[1], len(after) // 2 if after != '-' else -1, len(info['textA']) // 2, len(info['textB']) // 2), PROP + '/atomicity/save-file-torn'))
            return v
        if is_new and not is_old:
            for r in _recs(res, 'RTG'):
                w = r.split(' ')
                if w[1] == 'w' and w[3] == 'NE':
                    v.append(Violation(PROP, 'atomicity', 'the new save file that survived an interrupted save does not restore to the new values: %s' % r[:160], PROP + '/atomicity/new-file-incomplete'))
                    break
        rest = _recs(res, 'REST')
        if rest and 'ret=1' not in rest[-1]:
            v.append(Violation(PROP, 'atomicity', 'after an interrupted save the surviving file cannot be restored: %s' % rest[-1], PROP + '/atomicity/survivor-unrestorable'))
    else:
        tag = 'RESTD' if f.startswith('file:') else 'RV'
        if not _recs(res, tag):
            v.append(Violation(PROP, 'robust', 'restoring damaged text (%s) neither returned nor raised an LPC error' % f, PROP + '/robust/no-outcome'))
        good = _recs(res, 'RVRAW')
        if good and good[-1] != 'RVRAW ok array ' + GOOD:
            v.append(Violation(PROP, 'robust', 'a good text restored right after damaged text (%s) came back as %r' % (f, good[-1][:160]), PROP + '/robust/next-restore-affected'))
    return v


def summarize_point(plan, res, info):
    f = plan.opts().get('c16_fault', '')
    fired = bool(res.of('fs_stop')) or not f.startswith(('crash:', 'once:'))
    kind = f.split(':')[0]
    out = 'x'
    r = _recs(res, 'RESTD') + _recs(res, 'RV')
    if r: out = r[-1][:24]
    return {'nontrivial': fired, 'abstract': hashlib.sha256((str(plan.opts().get('c16_nvals')) + plan.header[-1] + f + out).encode()).hexdigest()[:16] if fired else '',
            'probes': {'crash_points': int(kind == 'crash' and fired), 'transient_write_errors': int(kind == 'once' and fired), 'damaged_files': int(kind == 'file'), 'damaged_values': int(kind == 'value'),
                       'restore_raised_error': int('err=1' in out or out.startswith('RV err'))}}
