# C20 - uid/euid change only as the master allows; without an euid no object can be created.
# Engine W-loop: one run = one driver life in which several objects with different creators load/clone/seteuid/export_uid under
# a master whose creator_file/valid_seteuid answers change during the run; a reference model of (uid, euid) per object is
# compared with getuid/geteuid of every object after every command.
import re, hashlib
from ..core import Plan, Violation, generic_crash_violations
from ..world import *

PROP = 'C20'
LEVEL = 'exploration'
RULE = ('one run = a seeded history of commands executed by objects of different creators (uclone/uload/implicit load by call_other/'
        'inherit-triggered load/master clone with euid dropped/seteuid to names and 0/export_uid/destruct) interleaved with changes of '
        'the master creator_file and valid_seteuid policy (names incl. Root and Backbone, refusal, 0, array, string, raised error); '
        'after every command getuid/geteuid of every live object is compared with a reference model; non-trivial = at least one refusal '
        '(no-euid creation, refused seteuid, refused export) and one uid change; distinct = distinct abstract outcome sequence.')
RULE += (' seteuid/export_uid also through an efun pointer that the actor makes, binds to another object (valid_bind answering 1, 0 or with an error) and evaluates: the owner does it, by the same rules, and a refused bind does nothing.')
RULE += (' Later additions: masters whose valid_object()/creator_file() look at the uids; euid dropped between check and use (before a blueprint is loaded for a clone).')
COMPONENTS = {'real': ['src/simulate.c give_uid_to_object/load_object/clone_object', 'lib/efuns/uids.c seteuid/export_uid/getuid/geteuid/uid table',
                       'src/apply.c master applies', 'LPC compiler and interpreter', 'src/comm.c + backend (commands arrive over the simulated socket)'],
              'stub': ['kernel sockets/clock/timer (simulated)', 'file layer pass-through']}
ASSUMPTIONS = ['virtual objects (compile_object) are not driven', 'the uid given to an object whose creator_file answer is not a string is the implementation-defined "NONAME"',
               'an object whose creator_file apply raises an error must not remain findable with a null uid; the model accepts either no object or an object with a uid assigned by the rules']

FILES = ['/u/a', '/u/b', '/u/c', '/u/d', '/u/e', '/uobj']
NAMES = ['Root', 'Backbone', 'alice', 'bob', 'carol']
CF_ANS = NAMES + ['Root', 'Backbone', 'alice', '0', 'A', 'E']
VS_ANS = ['1', '1', '1', '0', '0', 'A', 'S', 'E']


def gen(rng, tier, i):
    p = Plan()
    r0 = rng.random()
    p.file('mcfg.h', mcfg({'NO_VALID_SETEUID': 1} if r0 < 0.06 else ({'VALID_OBJECT_UIDS': 1} if r0 < 0.3 else {})))
    p.cfg('Port', '4000:telnet')
    p.cfg('MaxEvaluationCost', 2000000)
    cf = []
    for f in FILES:
        if rng.random() < 0.7: cf.append('%s %s' % (f, rng.choice(CF_ANS)))
    if rng.random() < 0.15: cf.append('/user %s' % rng.choice(['alice', 'Backbone', 'Root']))
    p.file('cfpolicy', '\n'.join(cf + ['/zz Root']) + '\n')
    vs = []
    for n in NAMES:
        if rng.random() < 0.5: vs.append('%s %s' % (n, rng.choice(VS_ANS)))
    p.file('vspolicy', '\n'.join(vs + ['zz 1']) + '\n')
    p.cycle(connect(0, 0))
    p.cycle(send(0, 'do name u0;uids\r\n'))
    p.meta['keep_cycles'] = 2      # the model knows the acting user by its tag: a plan without the naming step says nothing
    tags = ['u0']
    nt = 0
    vnames = set()
    n = rng.randint(3, 25 if tier == 'quick' else 60)
    for k in range(n):
        actor = rng.choice(tags)
        r = rng.random()
        if r < 0.04 and actor != 'u0':
            # the blueprint is not loaded: its create() runs inside the clone_object() call and makes the cloner give up its euid
            nt += 1; t = 't%d' % nt
            f = rng.choice(FILES)
            p.cycle(send(0, 'do dest %s;setcs as %s useteuid 0;uids\r\n' % (f, actor)))
            op = 'uclone %s %s' % (f, t); tags.append(t)
        elif r < 0.22:
            nt += 1; t = 't%d' % nt
            op = 'uclone %s %s' % (rng.choice(FILES), t); tags.append(t)
        elif r < 0.32:
            nt += 1; t = 't%d' % nt
            op = 'uload %s %s' % (rng.choice(FILES), t); tags.append(t)
        elif r < 0.34 and rng.random() < 0.5:
            # virtual objects: the master's compile_object() serves a name that has no file
            vn = '/v/x%d' % rng.randint(1, 3)
            if vn not in vnames:
                vnames.add(vn); p.cycle(send(0, 'do uvo %s;uids\r\n' % vn))
            if rng.random() < 0.6:
                nt += 1; t = 't%d' % nt
                op = 'uload %s %s' % (vn, t); tags.append(t)
            else:
                op = 'ucall %s %s' % (vn, rng.choice(('co', 'aco', 'move', 'tellroom', 'find1')))
        elif r < 0.37:
            op = 'ucall %s %s' % (rng.choice(FILES), rng.choice(('co', 'co', 'aco', 'move', 'tellroom', 'filter', 'mapstr', 'message', 'find1')))
        elif r < 0.42:
            nt += 1; t = 't%d' % nt
            op = 'umclone %s %s %d' % (rng.choice(FILES), t, rng.randint(0, 1)); tags.append(t); actor = 'u0'
        elif r < 0.62:
            op = 'useteuid %s' % rng.choice(NAMES + ['0', '0', 'me'])
            # ... or not by the object itself: an efun pointer to seteuid made by the actor, bound to another object, evaluated
            if rng.random() < 0.25: op = 'ubind %s seteuid %s' % (rng.choice(tags + FILES[:2]), op.split(' ')[1])
        elif r < 0.77:
            op = 'uexport %s' % rng.choice(tags)
            if rng.random() < 0.25: op = 'ubind %s export %s' % (rng.choice(tags + FILES[:2]), op.split(' ')[1])
        elif r < 0.85:
            op = 'ucf %s %s' % (rng.choice(FILES), rng.choice(CF_ANS)); actor = 'u0'
        elif r < 0.93:
            op = 'uvs %s %s' % (rng.choice(NAMES), rng.choice(VS_ANS)); actor = 'u0'
            if rng.random() < 0.25: op = 'uvb %s' % rng.choice(('0', '0', '1', 'E'))
        else:
            t = rng.choice(tags)
            if t == 'u0': continue
            op = 'dest %s' % t; actor = 'u0'
        if actor == 'u0': cmd = 'do %s;uids' % op
        else: cmd = 'do as %s %s;uids' % (actor, op)
        p.cycle(send(0, cmd + '\r\n'))
    p.idle(1)
    return p


class M:
    def __init__(self): self.obs = {}   # key (tag or blueprint name) -> [uid, euid]; names maps object file_name -> key


def check(plan, res):
    v = generic_crash_violations(PROP, res)
    if v: return v
    out = []
    def bad(kind, msg, cls):
        out.append(Violation(PROP, kind, msg, PROP + '/' + cls))
    model = {'M': ['Root', 'Root']}      # key -> [uid, euid]  ('0' = no euid)
    fname = {}                           # driver file_name -> key
    pend = None                          # creation window
    window = []                          # records inside the current command
    last_uids = None
    vobjs = {}                           # virtual name -> model key of the object that answers to it
    bindw = None                         # a bind() in progress: who binds onto whom, what valid_bind said
    stale = set()                        # keys whose model state is unknown after an anomalous creation (judged once)

    def creation_rules(creator_key, ans, snap=None):
        cu, ce = snap if snap is not None else model.get(creator_key, ['?', '?'])
        if ans in ('0', 'A'): name = 'NONAME'
        else: name = ans
        if name == cu: return [cu, '0']
        if name == 'Backbone' and ce != '0': return [ce, ce]
        return [name, '0']

    evs = [e for e in res.events if e.kind == 'R']
    k = 0
    while k < len(evs):
        w = evs[k].rest.split(' ')
        k += 1
        if w[0] == 'CONNECT':
            # the user object was cloned by the master: blueprint /user and the clone
            pass
        elif w[0] == 'NAME' or (w[0] == 'DO' and len(w) > 2 and w[2] == 'name'):
            pass
        elif w[0] == 'UNEW':
            pend = {'op': w[1], 'creator': w[2], 'file': w[3], 'tag': w[4], 'cf': [], 'created': [], 'snaps': [], 'euid_at_start': (model.get(w[2]) or ['?', '?'])[1]}
        elif w[0] == 'CF' and pend is not None:
            pend['cf'].append((w[1], w[2][4:]))
            # what the creator is at this very moment: a create() run earlier in the same operation may have changed it
            pend['snaps'].append(list(model.get('M' if False else pend['creator']) or ['?', '?']))
        elif w[0] == 'UCREATE' and pend is not None:
            pend['created'].append(w[1])
        elif w[0] == 'UNEWDONE' and pend is not None:
            ok = w[2] == 'ok=1'
            err = ' '.join(w[3:])[4:]
            ck = pend['creator']
            cst = model.get(ck)
            if cst is None:
                pend = None; continue     # actor does not exist (was never created): the as-op did nothing
            exempt = ck == 'M'
            if not exempt and pend['euid_at_start'] != '0' and not pend['file'].startswith('/v/'):      # (behind a virtual name the master is the creator)
                # the creator lost its euid in the middle of the operation (the create() of the blueprint that the clone
                # needed called back into it): what is created from then on is created by an object without euid
                late = [c[0] for c, sn in zip(pend['cf'], pend['snaps']) if sn[1] == '0']
                if late:
                    bad('no-euid-creation', '%s had set its euid to 0 when the driver went on to create %s for it' % (ck, late), 'no-euid-creation/%s-after-seteuid-0' % pend['op'])
            if pend['euid_at_start'] == '0' and not exempt:
                # an object without euid must not create anything
                if pend['cf'] or pend['created']:
                    bad('no-euid-creation', '%s with euid 0 started creating %s (creator_file asked for %s, create ran in %s)' % (ck, pend['file'], [c[0] for c in pend['cf']], pend['created']),
                        'no-euid-creation/' + pend['op'])
                if pend['op'] in ('uclone',) and ok:
                    bad('no-euid-creation', '%s with euid 0 cloned %s' % (ck, pend['file']), 'no-euid-creation/' + pend['op'])
                if pend['op'] in ('uload', 'ucall') and ok and pend['file'] not in model and pend['file'] not in vobjs:
                    bad('no-euid-creation', '%s with euid 0 loaded %s' % (ck, pend['file']), 'no-euid-creation/' + pend['op'])
                if pend['op'] == 'uload' and ok and pend['file'] in model:
                    model[pend['tag']] = model[pend['file']]      # load_object of a loaded object... is refused too; handled below by dump
                if pend['op'] == 'uload' and ok and pend['file'] in vobjs and vobjs[pend['file']] in model:
                    model[pend['tag']] = model[vobjs[pend['file']]]     # finding the object that already answers to the virtual name creates nothing
                pend['refused'] = True
            else:
                # every creator_file question is one object being created, in order; apply the rules
                virt = pend['file'].startswith('/v/')
                for (name, ans), snap in zip(pend['cf'], pend['snaps']):
                    base = name.split('#')[0]
                    key = pend['tag'] if ('#' in name and base == pend['file']) else name
                    if virt and base == '/uobj':
                        # the object behind a virtual name is cloned by the master (who is its creator, also of the blueprint
                        # it loads on the way), then renamed; a load_object() gives it the tag
                        key = name
                        if pend['op'] == 'uload' and '#' in name: key = pend['tag']
                        if ans == 'E': stale.add(key); continue
                        model[key] = creation_rules('M', ans); stale.discard(key); fname[name] = key
                        if '#' in name: vobjs[pend['file']] = key
                        continue
                    if ans == 'E':
                        stale.add(key); continue
                    model[key] = creation_rules(ck, ans, snap)
                    stale.discard(key)       # created for good now: an earlier failed attempt no longer matters
                    fname[name] = key
                if pend['op'] == 'uload' and ok:
                    # the tag names the blueprint itself
                    if pend['file'] in model: model[pend['tag']] = model[pend['file']]
                    # ... or the object that already answers to this virtual name
                    if virt and not pend['cf'] and pend['file'] in vobjs and vobjs[pend['file']] in model:
                        model[pend['tag']] = model[vobjs[pend['file']]]
            pend = None
        elif w[0] == 'UBIND':
            bindw = {'me': w[1], 'owner': w[2], 'same': w[3] == 'same=1', 'vb': None}
        elif w[0] == 'VB' and bindw is not None:
            bindw['vb'] = w[3][4:]
        elif w[0] == 'UBINDDONE' and bindw is not None:
            bound = w[3] == 'bound=1'
            if bound and not bindw['same']:
                # somebody else's function now runs as the owner: only with the master's word
                if bindw['vb'] is None: bad('bind', 'bind() by %s onto %s succeeded without asking the master' % (bindw['me'], bindw['owner']), 'bind/unasked')
                elif bindw['vb'] != '1': bad('bind', 'bind() by %s onto %s succeeded although valid_bind answered %s' % (bindw['me'], bindw['owner'], bindw['vb']), 'bind/refused-succeeded')
            if not bound and (bindw['same'] or bindw['vb'] == '1'):
                bad('bind', 'bind() by %s onto %s failed (same object: %s, valid_bind: %s)' % (bindw['me'], bindw['owner'], bindw['same'], bindw['vb']), 'bind/approved-failed')
            bindw = None
        elif w[0] == 'USETEUID':
            me, val, ret, er = w[1], w[2], w[3][4:], w[4][4:]
            st = model.get(me)
            if st is None: continue
            # find the VS record of this call (directly before)
            vs = None
            if k >= 2:
                pw = evs[k - 2].rest.split(' ')
                if pw[0] == 'VS' and pw[2] == val: vs = pw[3][4:]
            if val == '0':
                st[1] = '0'
                if ret != '1': bad('seteuid', 'seteuid(0) by %s returned %s' % (me, ret), 'seteuid/zero-refused')
            else:
                if vs is None:
                    if ret == '1': bad('seteuid', 'seteuid(%s) by %s succeeded without asking the master' % (val, me), 'seteuid/unasked')
                elif vs in ('1', 'A', 'S'):
                    st[1] = val
                    if ret != '1': bad('seteuid', 'approved seteuid(%s) by %s returned %s' % (val, me, ret), 'seteuid/approved-failed')
                else:
                    if ret == '1': bad('seteuid', 'seteuid(%s) by %s returned 1 although the master answered %s' % (val, me, vs), 'seteuid/refused-succeeded')
        elif w[0] == 'UEXPORT':
            me, tgt, ret, er = w[1], w[2], w[3][4:], w[4][4:]
            st = model.get(me); ts = model.get(tgt)
            if st is None or ts is None: continue
            if st[1] == '0':
                if er != '1': bad('export', 'export_uid by %s with euid 0 did not fail (ret=%s)' % (me, ret), 'export/no-euid')
            elif ts[1] != '0':
                if ret != '0': bad('export', 'export_uid onto %s which has euid %s returned %s' % (tgt, ts[1], ret), 'export/target-has-euid')
            else:
                ts[0] = st[1]
                if ret != '1': bad('export', 'export_uid %s -> %s returned %s' % (me, tgt, ret), 'export/failed')
        elif w[0] == 'DEST':
            t = w[1]
            model.pop(t, None)
        elif w[0] == 'LOGON':
            pass
        elif w[0] == 'UIDS':
            seen = {}
            for item in w[1:]:
                t, u, e = item.rsplit(':', 2)
                seen[t] = [u, e]
            if last_uids is None:
                # first dump: adopt the initial state (user object and whatever exists)
                for t, st in seen.items(): model[t] = list(st)
                # the user object must follow the creation rules with the master as creator
                last_uids = seen
                continue
            for t, st in seen.items():
                if t in stale:
                    # adopt in place: a tag and the blueprint name may share one state
                    if t in model: model[t][:] = list(st)
                    else: model[t] = list(st)
                    stale.discard(t)
                if st[0] in ('0', ''): bad('state', 'object %s has no uid' % t, 'state/null-uid')
                exp = model.get(t)
                if exp is None:
                    if t.startswith('/') and t not in last_uids:
                        bad('state', 'object %s exists (uid %s euid %s) but the model has no creation for it' % (t, st[0], st[1]), 'state/unexpected-object')
                    model[t] = list(st)
                    continue
                if exp[0] != st[0]:
                    bad('state', 'uid of %s is %s, reference model says %s' % (t, st[0], exp[0]), 'state/uid')
                    exp[0] = st[0]
                if exp[1] != st[1]:
                    bad('state', 'euid of %s is %s, reference model says %s' % (t, st[1], exp[1]), 'state/euid')
                    exp[1] = st[1]
            last_uids = seen
    seen = set(); res_ = []
    for x in out:
        if x.cls in seen: continue
        seen.add(x.cls); res_.append(x)
    return res_


def summarize(plan, res):
    kinds = []; refusals = 0; changes = 0
    for e in res.events:
        if e.kind != 'R': continue
        w = e.rest.split(' ')
        if w[0] == 'UNEWDONE':
            kinds.append('N' + w[2][-1] + ('e' if w[3] != 'err=0' else ''))
            if w[2] == 'ok=0': refusals += 1
            else: changes += 1
        elif w[0] == 'USETEUID':
            kinds.append('S' + w[3][-1] + w[4][-1])
            if w[3] == 'ret=0' or w[4] == 'err=1': refusals += 1
            else: changes += 1
        elif w[0] == 'UEXPORT':
            kinds.append('X' + w[3][-1] + w[4][-1])
            if w[3] != 'ret=1': refusals += 1
            else: changes += 1
        elif w[0] == 'CF': kinds.append('c' + w[2][4:5])
        elif w[0] == 'VS': kinds.append('v' + w[3][4:5])
    return {'nontrivial': refusals > 0 and changes > 0, 'abstract': hashlib.sha256(' '.join(kinds).encode()).hexdigest()[:16],
            'probes': {'refusals': refusals, 'uid_changes': changes,
                       'no_euid_creation_attempts': sum(1 for e in res.events if e.kind == 'R' and 'effective' in e.rest.lower()),
                       'bound_calls': sum(1 for e in res.events if e.kind == 'R' and e.rest.startswith('UBINDDONE ') and e.rest.endswith('bound=1')),
                       'binds_refused': sum(1 for e in res.events if e.kind == 'R' and e.rest.startswith('UBINDDONE ') and e.rest.endswith('bound=0')),
                       'backbone_creations': sum(1 for e in res.events if e.kind == 'R' and e.rest.startswith('CF ') and e.rest.endswith('ans=Backbone'))}}
