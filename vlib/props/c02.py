# C02 - compiling any source text is safe and leaves the compiler reusable.
# Engine W-loop: a seeded history of compilations over a corpus of valid programs and damaged variants of them (token, brace,
# string, comment, text block, preprocessor, nesting, size and random-byte damage), some of them under read faults of the
# simulated file layer (short reads, EIO at the k-th read) and with LPC errors injected into the master applies made during
# compilation.  After every compilation a fixed probe program is compiled again: its structure and results must be what
# they were at boot.
import re, hashlib, os
from ..core import Plan, Violation, generic_crash_violations, enc, dec
from ..world import *
from . import c18, c07

PROP = 'C02'
LEVEL = 'exploration'
RULE = ('one run = 5-25 compilations (load_object inside catch, then destruct) of generated sources in a seeded order: valid programs '
        '(layout generator of C18, inheritance fixtures of C07, the verification mudlib itself) and damaged variants: deleted/inserted/'
        'duplicated structural characters, truncation at a random byte, unterminated string / comment / text block / function literal, '
        '#if without #endif and stray #else/#endif, self-referencing and mutually recursive #defines, macro argument misuse, #include of '
        'itself / of a missing file / nested 12 deep, function literals nested 2-12 deep, 20-60 locals in nested blocks, 300 arguments, '
        '200-3000 string constants, 100-700 functions, lines of 900-5000 bytes, identifiers of 100-1200 bytes, string literals up to 70000 bytes, '
        'duplicate and conflicting definitions, random bytes incl. NUL and bytes above 127; optionally short reads (1-7 or 1-4096 bytes per read) '
        'or EIO at the k-th read of the source, or an LPC error injected at instruction k of the master applies during the compile. After '
        'each compilation the probe program is compiled and run. non-trivial = at least three compilations failed and one succeeded; '
        'distinct = distinct sequence of (damage kind, outcome).')
RULE += (" Later additions: damage kinds for data-table objects (initialiser block many times the code), programs overriding 200-300 inherited functions (with a probe of nine functions on both sides of the 255th), very long names in a dozen roles, headers and macros that include themselves; masters whose log_error() loads a helper from its saved binary in the middle of the failing compilation; 'object xor reported error' judged in both directions (not for compilations with an injected read error).")
COMPONENTS = {'real': ['lib/lpc/lex.c (lexer, preprocessor, include stack)', 'lib/lpc/grammar.y', 'lib/lpc/compiler.c', 'lib/lpc/program/icode.c, generate.c', 'lib/lpc/scratchpad.c', 'src/simulate.c load_object',
                       'master::log_error apply', 'src/backend.c + comm.c'],
              'stub': ['kernel sockets/clock/timer (simulated)', 'file layer: pass-through with short reads and EIO on read'],
              'hook': ['per-instruction callback (NEOLITH_VERIF) for errors injected into master applies']}
ASSUMPTIONS = ['"every byte sequence" is sampled by the damage operators above, not enumerated: the claim is about the histories, the faults and the reusability oracle',
               'a compilation must end with a loaded object, or with at least one error reported through master::log_error or raised to the caller',
               'EIO on a source read is treated by the lexer as end of file; the property only demands safety there']

STRUCT = '{}()[];,:"\'#@$\\/*'
EFUN_NAMES = ['sprintf', 'evaluate', 'sort_array', 'implode', 'keys']     # efuns the probe program calls


def _valid_sources(rng):
    """a few valid programs as (name, text) plus the files they need"""
    files = {}
    w = None
    for _ in range(20):
        w = c18.World(rng, 'quick'); w.no_big_pad = True
        w.build()
        try: w.run()
        except OverflowError: continue
        break
    for name, em in w.files.items(): files[name] = em.text()
    fx = c07.Fixture(rng)
    for x in fx.names: files['c/%s.c' % x] = fx.text(x)
    mains = ['g/m.c'] + ['g/%s.c' % p for p in ('p', 'q', 'o') if p in w.order] + ['c/%s.c' % x for x in fx.names]
    return files, mains


def _damage(rng, text, k):
    kinds = ['manyoverride', 'biginit', 'longchain', 'litlocals', 'widestr', 'scratch', 'inhlong', 'incmacro', 'inclong', 'manystrings', 'bigprog', 'incself2', 'efunglobal', 'efunglobal', 'intmin', 'efunlocal', 'efunlocal', 'redeclare', 'redeclare', 'del', 'ins', 'dup', 'trunc', 'unstr', 'uncomment', 'untext', 'unlit', 'if', 'endif', 'else', 'defself', 'defmutual', 'macroargs', 'incself', 'incmissing',
             'incdeep', 'litdeep', 'locals', 'args', 'strings', 'funcs', 'longline', 'longident', 'longstr', 'dupfun', 'conflict', 'random', 'nul', 'high', 'inhmissing', 'inhlate', 'superunknown', 'defprobe', 'pragma', 'unlit3', 'unlit3', 'iffatal']
    kind = rng.choice(kinds)
    if os.environ.get('C02_ONLY_KIND'): kind = os.environ['C02_ONLY_KIND']
    n = len(text)
    pos = rng.randint(0, max(0, n - 1))
    nl = text.find('\n', pos) + 1 or n
    if kind == 'widestr':
        # a wide string literal; later files (the probe among them) hold plain strings with bytes that are no valid UTF-8
        t = text + '\nmixed zw() { return L"abc"; }\n'
    elif kind == 'scratch':
        # the lexer's scratch pad nearly full (nested calls of long unknown names) and then a string full of unknown escapes
        m = rng.choice((10, 19, 20, 21, 30)); nm = 'u' * rng.choice((100, 200, 250))
        t = text + '\nmixed zsc() { return ' + ''.join('%s%d(' % (nm, j) for j in range(m)) + '"' + '\\q' * rng.choice((60, 120, 400)) + '"' + ')' * m + '; }\n'
    elif kind == 'inhlong':
        parts = ' '.join('"%s"' % ('a' * 900) for _ in range(rng.choice((1, 3, 4))))
        t = 'inherit "%s" %s;\n' % (rng.choice(('x//', '/x//y', 'x/')), parts) + text
    elif kind == 'incmacro':
        t = rng.choice(('#define ZA ZA\n#include ZA\n', '#define ZA ZB\n#define ZB ZA\n#include ZA\n', '#define ZA "/x/deep0.h"\n#include ZA\n', '#define ZA <\n#include ZA\n')) + text
    elif kind == 'inclong':
        t = '#include "%s"\n' % ('h' * rng.choice((300, 920, 1000, 1100))) + text
    elif kind == 'manystrings':
        m = rng.choice((20000, 33000, 40000)); per = 250
        t = text + ''.join('\nmixed zms%d() { return ({ %s }); }' % (b, ', '.join('"m%d"' % i for i in range(b * per, min(m, (b + 1) * per)))) for b in range((m + per - 1) // per)) + '\n'
    elif kind == 'bigprog':
        nf = rng.choice((20, 40)); per = rng.choice((250, 450))
        t = text + ''.join('\nint zbig%d(int i) {\n%s return i; }' % (f, ''.join(' i = i + %d;\n' % (12345 + j) for j in range(per))) for f in range(nf)) + '\nint zlast() { return zbig%d(1); }\n' % (nf - 1)
    elif kind == 'manyoverride':
        # a program that redefines hundreds of the functions it inherits (and leaves at least one of them alone): the
        # compiler's table of "functions taken over unchanged" has 8-bit indexes
        m = rng.choice((200, 254, 255, 256, 257, 300)); own = rng.choice((0, 2, 40))
        t = 'inherit "/x/big300";\n' + ''.join('int bf%d() { return %d; }\n' % (j, 1000 + j) for j in range(m)) + ''.join('int zown%d() { return bf%d() + zlast(); }\n' % (j, j % m) for j in range(own))
        # (and it has to be the right program: own, redefined and inherited functions on both sides of the 255th, through local calls
        # and - by name - from outside; the expected answer travels in a comment that gen() reads)
        probe = [0, 1, 253, 254, 255, 256, 257, 298, 299]
        t += 'string zchk() { return "" + %s + "," + zlast(); }\n' % ' + "," + '.join('bf%d()' % j for j in probe)
        t += '// ZCHK=%s,7\n' % ','.join(str(1000 + j if j < m else j) for j in probe)
    elif kind == 'biginit':
        # a "data table" object: far more code in the initialisers of global variables than in functions (the initialiser
        # block is appended to the program in one piece at the end of the compilation)
        na = rng.choice((8, 20, 48, 90)); per = rng.choice((60, 100, 200))
        tab = ''.join('mixed *ztab%d = ({ %s });\n' % (a, ', '.join(str(100000 + a * per + j) for j in range(per))) for a in range(na))
        t = (tab + 'int zsum() { return ztab0[1] + ztab%d[%d]; }\n' % (na - 1, per - 1)) if rng.random() < 0.6 else text + '\n' + tab
    elif kind == 'incself2':
        t = '#include "/x/self2.h"\n' + text
    elif kind == 'litlocals':
        # function literals nested two to four deep, each with nearly as many locals as a function may have: the compiler's
        # tables of local names grow while they are in use
        depth = rng.choice((2, 3, 3, 4)); nl = rng.choice((20, 23, 24))
        body = 'return 1;'
        for d in range(depth, 0, -1):
            names = ', '.join('%s%d' % ('abcd'[d - 1], j) for j in range(nl))
            body = 'int %s; %s0 = %d; return function() { %s };' % (names, 'abcd'[d - 1], d, body)
        t = text + '\nmixed zlit() { %s }\n' % body
    elif kind == 'longchain':
        # one expression with very many operands (a parse tree one level deep per operand): legal up to the compiler's own
        # limits, and whatever it answers beyond them, it must answer as a compile error
        m = rng.choice((3000, 9000, 11000, 30000, 100000)); opnd, op = rng.choice((('zc', '+'), ('zc', '-'), ('zs', '+'), ('zc', '|'), ('zc', '&&'), ('zc', ',')))
        t = text + '\nint zc = 1; string zs = "s";\nmixed zchain() { return (' + (' ' + op + '\n').join([opnd] * m) + '); }\n'
    elif kind == 'del':
        idx = [i for i, ch in enumerate(text) if ch in '{}();"'] or [0]
        i = rng.choice(idx); t = text[:i] + text[i + 1:]
    elif kind == 'ins': t = text[:pos] + rng.choice(STRUCT) + text[pos:]
    elif kind == 'dup': t = text[:pos] + text[pos:pos + rng.randint(1, 40)] + text[pos:]
    elif kind == 'trunc': t = text[:pos]
    elif kind == 'unstr': t = text[:nl] + 'string zz = "never closed;\n' + text[nl:]
    elif kind == 'uncomment': t = text[:nl] + '/* never closed\n' + text[nl:]
    elif kind == 'untext': t = text[:nl] + 'string zt = @ENDMARK\nnever closed\n' + text[nl:]
    elif kind == 'unlit': t = text[:nl] + 'function zf = (: $1 + (: $1 \n' + text[nl:]
    elif kind == 'if': t = text[:nl] + '#if 1\n' + text[nl:]
    elif kind == 'endif': t = text[:nl] + '#endif\n' + text[nl:]
    elif kind == 'else': t = text[:nl] + '#else\n' + text[nl:]
    elif kind == 'defself': t = '#define SELFREF SELFREF + 1\nint zs = SELFREF;\n' + text
    elif kind == 'defmutual': t = '#define MA MB\n#define MB MA\nint zm = MA;\n' + text
    elif kind == 'macroargs': t = '#define FM(x, y) x y\nint za = FM(1;\nint zb = FM(1, 2, 3);\n' + text
    elif kind == 'incself': t = '#include "/x/f%d.c"\n' % k + text
    elif kind == 'incmissing': t = text[:nl] + '#include "/x/nonexistent_%d.h"\n' % k + text[nl:]
    elif kind == 'incdeep': t = '#include "/x/deep0.h"\n' + text
    elif kind == 'litdeep':
        d = rng.choice((2, 4, 8, 12))
        t = text + '\nmixed zl() { return ' + '(: ' * d + '$1' + ' :)' * d + '; }\n'
    elif kind == 'locals':
        m = rng.choice((20, 24, 25, 26, 40, 60))
        t = text + '\nint zloc() { ' + ' '.join('{ int v%d; v%d = %d;' % (i, i, i) for i in range(m)) + ' }' * m + ' return 1; }\n'
    elif kind == 'args':
        m = rng.choice((40, 255, 256, 300))
        t = text + '\nint zarg(' + ', '.join('int a%d' % i for i in range(m)) + ') { return a0; }\n'
    elif kind == 'strings':
        m = rng.choice((200, 1000, 3000))
        t = text + '\nmixed zstr() { return ({ ' + ', '.join('"s%d_%d"' % (k, i) for i in range(m)) + ' }); }\n'
    elif kind == 'funcs':
        m = rng.choice((100, 300, 700))
        t = text + '\n' + '\n'.join('int zf%d() { return %d; }' % (i, i) for i in range(m)) + '\n'
    elif kind == 'longline':
        m = rng.choice((900, 1023, 1024, 1025, 2000, 5000))
        t = text + '\nint zll = ' + '1 + ' * (m // 4) + '1;\n'
    elif kind == 'longident':
        # a very long identifier in every role a name can have: the compiler quotes names in its messages, which it builds in
        # fixed buffers
        m = rng.choice((100, 230, 236, 255, 256, 1200)); nm = 'z' + 'i' * m
        t = text + rng.choice(('\nint %s = 1;\n', '\nint zu1() { return %s; }\n', '\nint zu2() { return %s(1); }\n', '\nint %s(int a) { return a; }\nint zu3() { return %s(1, 2); }\n',
                               '\nint zu4(int %s) { int %s; return 1; }\n', '\nint zu5() { return %s::zq(); }\n', '\n#define %s 1\n#define %s 2\n', '\nclass %s { int a; }\nint zu6() { class %s c; c = new(class %s); return c->zzz; }\n',
                               '\nint zu7() { return this_object()->%s(); }\nint zu8() { object o; return o->a->%s; }\n', '\nint zu9() { return (: %s :); }\nint zu10() { return (: %s, 1 :); }\n',
                               '\nvoid zu11() { %s = 5; %s += "x"; }\n', '\nint zu12(string %s) { return %s + 1; }\n#pragma strict_types\nint zu13() { return zu12(1); }\n')).replace('%s', nm)
    elif kind == 'longstr':
        m = rng.choice((500, 1000, 4000, 70000))
        t = text + '\nstring zls = "' + 'x' * m + '";\n'
    elif kind == 'defprobe':
        # macros the probe program itself uses, defined by a file that then fails: they must not survive
        t = rng.choice(('#define PROBE_NEVER 1\n', '#define THREE 4\n', '#define PROBE_TWICE(x) (x)\n', '#define gp 77\n', '#define run norun\n')) + text[:nl] + ' ) ) } syntax error here ;\n' + text[nl:]
    elif kind == 'pragma':
        t = '#pragma strict_types\n#pragma save_types\n#pragma warnings\n' + text[:nl] + ' ) } syntax error here ;\n' + text[nl:]
    elif kind == 'unlit3':
        t = text[:nl] + 'function zf3 = (: $1 + (: $2 + (: $3 + @@@ \n' + text[nl:nl + rng.randint(0, 200)]
    elif kind == 'iffatal':
        # an open #if followed by an error that stops the lexer before the end of the file
        t = text[:nl] + '#if 1\n#ifdef NOPE\n#else\nint zq = ' + '1 + ' * 800 + '1;\n' + text[nl:]      # "Line too long" is fatal for the lexer
    elif kind == 'intmin':
        # constant expressions the compiler and the preprocessor fold themselves
        t = rng.choice(('int zim = (-9223372036854775807 - 1) %% -1;\n', 'int zim = (-9223372036854775807 - 1) / -1;\n', '#if (-2147483647 - 1) / -1\nint zim;\n#endif\n',
                        '#if (-2147483647 - 1) %% -1 == 0\nint zim;\n#endif\n', 'int zim = 1 / 0;\n', 'int zim = 1 %% 0;\n', '#if 1 / 0\n#endif\n', 'int zim = 1 << 64;\nint zin = 1 << -1;\n')).replace('%%', '%') + text
    elif kind == 'efunglobal':
        # one efun name used for two kinds of global-scope definition in the same (valid or failing) file: the compiler must
        # forget both afterwards
        n1, n2 = rng.sample(EFUN_NAMES, 2)
        t = text + rng.choice(('\nmixed %s;\nmixed %s(mixed x) { return x; }\n' % (n1, n1),
                               '\nclass %s { int a; }\nmixed %s;\nmixed %s(mixed x) { return x; }\n' % (n1, n1, n1),
                               '\nmixed %s(mixed x) { return x; }\nmixed %s;\nclass %s { int b; }\nmixed %s() { return 1; }\n' % (n1, n1, n2, n2),
                               '\nmixed %s;\nmixed %s() { return %s } syntax error\n' % (n1, n1, n1)))
    elif kind == 'efunlocal':
        # locals and parameters named like efuns the probe uses, hidden by an anonymous function that the parser leaves early
        names = rng.sample(EFUN_NAMES, 3)
        tail = rng.choice(('function(int x, ) { return x; };\n return f;\n}\n', 'function(int x) { return x + ', 'function(int x) { int %s; return (: $1 + ' % names[2],
                           'function(int x) { return x; };\n return f;\n}\n'))
        t = text + '\nmixed zel(int %s, string %s) {\n int %s; function f;\n f = %s' % (names[0], names[1], names[2], tail)
    elif kind == 'redeclare':
        # a local redeclared in the same block (an error), named like an efun the probe uses
        names = rng.sample(EFUN_NAMES, 2)
        t = text + '\nvoid zrd(int %s) {\n int %s;\n int %s;\n { int %s; int %s; }\n}\n' % (names[1], names[0], names[0], names[1], names[1])
    elif kind == 'dupfun': t = text + '\nint zdup() { return 1; }\nint zdup() { return 2; }\nint zdup(int a);\n'
    elif kind == 'conflict': t = text + '\nint zc;\nstring zc;\nclass ZC { int a; }\nclass ZC { string a; }\nvoid zc() { }\n'
    elif kind == 'random':
        b = bytes(rng.randrange(1, 256) for _ in range(rng.randint(1, 400)))
        t = text[:pos] + b.decode('latin-1') + text[pos:]
    elif kind == 'nul': t = text[:pos] + '\x00' + text[pos:]
    elif kind == 'high': t = text[:pos] + ''.join(chr(rng.randrange(128, 256)) for _ in range(rng.randint(1, 30))) + text[pos:]
    elif kind == 'inhmissing': t = 'inherit "/x/no_such_program_%d";\n' % k + text
    elif kind == 'inhlate': t = text + '\ninherit "/mk";\n'
    else: t = text + '\nmixed zsu() { return ::no_such_function_%d(); }\n' % k
    return kind, t


def gen(rng, tier, i):
    p = Plan()
    helper = rng.random() < 0.25
    p.file('mcfg.h', mcfg({'LOGERR_LOADS': 1} if helper else {}))
    p.cfg('Port', '4000:telnet')
    p.cfg('MaxEvaluationCost', 5000000)
    p.cfg('MaxInheritDepth', 8)
    if helper:
        p.cfg('SaveBinaryDir', '/bin')
        p.file('x/lhelp.c', '#pragma save_binary\nint ping() { return 1; }\n')
    if rng.random() < 0.3: p.cfg('MaxLocalVariables', rng.choice((25, 30, 40)))     # not below 25: the verification mudlib itself needs them
    p.opt('max_instr', 100000000)
    p.opt('fault_exempt_master', 0)
    files, mains = _valid_sources(rng)
    for name, text in sorted(files.items()): p.file(name, text)
    p.file('x/utf.c', 'string zu() { return "\\xff\\xfe\\x80"; }\n')     # a plain string whose bytes are no valid UTF-8: legal, whatever was compiled before
    p.file('x/self2.h', '#include "/x/self2.h"\n#include "/x/self2.h"\n')
    p.file('x/big300.c', ''.join('int bf%d() { return %d; }\n' % (j, j) for j in range(300)) + 'int zlast() { return 7; }\n')
    for d in range(12): p.file('x/deep%d.h' % d, '#include "/x/deep%d.h"\n' % (d + 1) if d < 11 else 'int zdeep;\n')
    p.cycle(connect(0, 0))
    p.cycle(send(0, 'do name u0;%scomp p0 /probe\r\n' % ('load /x/lhelp;' if helper else '')))
    p.cycle(send(0, 'do xco p0 /probe run;pinfo /probe;xreload /probe\r\n'))
    n = rng.randint(5, 25 if tier == 'quick' else 60)
    kinds = []
    for k in range(n):
        src = rng.choice(mains)
        text = files[src]
        if rng.random() < 0.2:
            kind, t = 'valid', text
            target = '/' + src[:-2]
        else:
            kind, t = _damage(rng, text, k)
            # the damaged text replaces nothing: it lives in its own file next to the original (so inherits/includes still resolve)
            target = '/x/f%d' % k
            p.file('x/f%d.c' % k, t.encode('latin-1', 'replace').decode('latin-1'))
        kinds.append(kind)
        steps = []
        r = rng.random()
        if r < 0.15: steps.append('fsopt %d -1' % rng.choice((1, 2)))
        elif r < 0.25: steps.append('fsopt -1 %d' % rng.randint(0, 6))
        elif r < 0.33: steps.append(fault(rng.randint(0, 40), 'error'))
        # the value stack is nearly used up when the compilation starts: the arguments the compiler pushes for the master
        # (log_error, valid_override) do not fit, and the error leaves the compiler from the middle of a parse
        elif r < 0.39: steps.append(fault(rng.randint(0, 60), 'stackroom:%d' % rng.choice((0, 1, 2, 3, 4, 6))))
        elif r < 0.47: steps.append(fault(rng.choice((0, 0, 0, 1)), 'compileroom:%d' % rng.choice((0, 1, 2, 3, 4, 6))))
        steps.append(send(0, 'do comp %d %s\r\n' % (k, target)))
        p.cycle(*steps)
        mz = re.search(r'// ZCHK=(\S+)', t) if kind == 'manyoverride' else None
        if mz:
            p.cycle(send(0, 'do xsco z%d %s zchk\r\n' % (k, target)))
            p.meta.setdefault('zchk', {})['z%d' % k] = mz.group(1)
        p.cycle('fsopt 0 -1', 'fault -1 error', send(0, 'do comp u%d /x/utf;comp p%d /probe\r\n' % (k + 1, k + 1)))
        p.cycle(send(0, 'do xco p%d /probe run;pinfo /probe;xreload /probe\r\n' % (k + 1)))
    p.idle(1)
    p.meta['kinds'] = kinds
    return p


def check(plan, res):
    v = generic_crash_violations(PROP, res)
    if v: return v
    out = []
    def bad(kind, msg, cls): out.append(Violation(PROP, kind, msg, PROP + '/' + cls))
    kinds = plan.meta.get('kinds', [])
    # every compilation: object xor reported error
    errs_since = 0; cur = None
    comp = {}
    pending_errs = []
    read_fault = False
    for e in res.events:
        if e.kind == 'fs_fault': read_fault = True      # the source could not be read to its end: what the compiler makes of the part it got is not judged
        if e.kind != 'R': continue
        w = e.rest.split(' ')
        if w[0] == 'DO' and ' comp ' in e.rest:
            pending_errs = []; read_fault = False
        elif w[0] in ('LOGERR', 'ERR'):
            pending_errs.append(e.rest[:160])
        elif w[0] == 'COMP':
            cid = w[1]; ok = w[3] == 'ok=1'; err = w[4][4:] if len(w) > 4 else '0'
            comp[cid] = (ok, err, list(pending_errs))
            if not cid.startswith('p') and not cid.startswith('u'):
                kd = kinds[int(cid)] if int(cid) < len(kinds) else '?'
                hard = [x for x in pending_errs if 'Warning' not in x]
                if not ok and err == '0' and not hard:
                    bad('outcome', 'compilation %s (%s) yielded no object and reported no error' % (cid, kd), 'outcome/silent-failure')
                hardc = [x for x in hard if x.startswith('LOGERR ')]
                if ok and hardc and not read_fault:
                    bad('outcome', 'compilation %s (%s) reported the compile error %r and yielded an object all the same' % (cid, kd, hardc[0][:120]), 'outcome/loaded-despite-error')
            pending_errs = []
    for e in res.events:
        if e.kind == 'R' and e.rest.startswith('XR z'):
            w = e.rest.split(' ')
            want = (plan.meta.get('zchk') or {}).get(w[1])
            if want and len(w) > 2 and w[2] != want and not w[2].startswith('err:'):
                bad('program', 'a program that redefines hundreds of inherited functions answers %s where its source says %s' % (w[2][:80], want), 'outcome/wrong-program-many-overrides')
                break
    for e in res.events:
        if e.kind == 'R' and e.rest.startswith('COMP u') and ' ok=0' in e.rest:
            bad('probe', 'a file with a plain string literal of non-UTF-8 bytes no longer compiles: %s' % e.rest[:160], 'probe/plain-string-refused')
            break
    # the probe: structure and result identical after every compilation
    probes = [e.rest for e in res.events if e.kind == 'R' and e.rest.startswith('PINFO /probe ')]
    runs = [e.rest.split(' ', 2)[2] for e in res.events if e.kind == 'R' and e.rest.startswith('XR p')]
    pcomp = [(cid, c) for cid, c in comp.items() if cid.startswith('p')]
    for cid, (ok, err, errs) in pcomp:
        if not ok:
            kd = kinds[int(cid[1:]) - 1] if cid != 'p0' and int(cid[1:]) - 1 < len(kinds) else 'boot'
            bad('probe', 'the probe program no longer compiles after compilation %s (%s): %s %s' % (cid, kd, err, errs[:2]), 'probe/does-not-compile')
            break
    if probes:
        for k, pr in enumerate(probes[1:], 1):
            if pr != probes[0]:
                kd = kinds[k - 1] if k - 1 < len(kinds) else '?'
                bad('probe', 'after compilation %d (%s) the probe program is described as %s; at boot it was %s' % (k - 1, kd, pr[13:200], probes[0][13:200]), 'probe/structure-differs')
                break
    if runs:
        for k, r in enumerate(runs[1:], 1):
            if r != runs[0]:
                kd = kinds[k - 1] if k - 1 < len(kinds) else '?'
                bad('probe', 'after compilation %d (%s) the probe returns %s; at boot it returned %s' % (k - 1, kd, r[:160], runs[0][:160]), 'probe/result-differs')
                break
    seen = set(); r2 = []
    for x in out:
        if x.cls in seen: continue
        seen.add(x.cls); r2.append(x)
    return r2


def summarize(plan, res):
    oc = []
    for e in res.events:
        if e.kind == 'R' and e.rest.startswith('COMP ') and not e.rest.split(' ')[1].startswith(('p', 'u')):
            w = e.rest.split(' ')
            oc.append((int(w[1]), w[3] == 'ok=1'))
    kinds = plan.meta.get('kinds', [])
    seq = ' '.join('%s:%d' % (kinds[i] if i < len(kinds) else '?', ok) for i, ok in oc)
    nfail = sum(1 for _, ok in oc if not ok); nok = sum(1 for _, ok in oc if ok)
    return {'nontrivial': nfail >= 3 and nok >= 1, 'abstract': hashlib.sha256(seq.encode()).hexdigest()[:16],
            'probes': {'compilations': len(oc), 'failed': nfail, 'succeeded': nok, 'read_eio': len([e for e in res.events if e.kind == 'fs_fault']),
                       'faults_fired': len(res.of('fault_fired')), 'probe_checks': sum(1 for e in res.events if e.kind == 'R' and e.rest.startswith('PINFO /probe '))}}
