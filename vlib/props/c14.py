# C14 - output reaches the client in order, exactly once, under any write pattern.
# Engine W-loop: real add_message()/flush_message()/process_io() against scripted send() results.
import re, hashlib
from ..core import Plan, Violation, generic_crash_violations, spin_violations, enc, dec
from ..world import *

PROP = 'C14'
LEVEL = 'exploration'
RULE = ('one evaluation = one simulated driver life with 1-3 users on an ASCII or telnet port; the plan makes user objects emit '
        'deterministic messages (lengths 0..8191, bursts far beyond the 4 KiB ring) through write/tell_object/printf/receive from '
        'commands, call_outs and heart beats, while every send() result is scripted (full, partial k, EWOULDBLOCK, EINTR, EPIPE, '
        'windows closed for many cycles). non-trivial = at least one partial/would-block/EINTR/EPIPE result or one message cut by a '
        'full ring; distinct = distinct abstract traces (sequence of message lengths classes and send-result kinds).')
RULE += (" Later additions: ENOBUFS among the scripted send results; scenario class vmsg: the driver's configured failure message (add_vmessage) placed so that its CR LF starts in a chosen cell of the ring, the last cells among them.")
COMPONENTS = {'real': ['src/comm.c add_message/add_vmessage/flush_message/process_io', 'src/backend.c', 'lib/efuns tell_object/write/printf/receive',
                       'lib/async/async_runtime_epoll.c'],
              'stub': ['kernel send()/epoll (simulated: scripted results, write readiness withheld while the window is closed)', 'timer thread (plan ticks)']}
ASSUMPTIONS = ['a message may lose only its tail, and only when the ring (4096 bytes) was full at the end of that write or the connection had failed',
               'exact oracle on the ASCII port; on the telnet port driver-generated negotiation bytes (IAC ..., newline echo) are filtered first']
CAP = 4096
ALPHA = 'abcdefghijklmnopqrstuvwxyz0123456789'


def mkmsg(i, ln):
    k = 7 + i % 13
    j = i % 36
    line = (ALPHA + ALPHA)[j:j + k - 1] + '\n'
    s = '[%03d]' % i
    if ln <= 0:
        return s
    return s + (line * (ln // k + 1))[:ln - 1] + '\n'


LENS = (0, 2, 3, 7, 50, 300, 1000, 2047, 2048, 4090, 4095, 4096, 4097, 5000, 8000, 8185)


FAILMSG = 'Eh?'


def gen_vmsg(rng, tier, i):
    """the driver's own messages (the configured failure message goes through add_vmessage(), the formatted twin of
    add_message()) at chosen places of the output ring, its last cells among them; every send succeeds, so the place of a byte
    in the ring is the number of bytes written before it"""
    p = Plan()
    # (a telnet port: there the driver parses commands itself and answers a verb nobody takes; it also queues twelve bytes
    # of negotiation at the start and three bytes of newline echo for every line it receives)
    p.file('mcfg.h', mcfg({}))
    p.cfg('Port', '4000:telnet')
    p.cfg('MaxEvaluationCost', 5000000)
    p.cfg('DefaultFailMsg', FAILMSG)
    p.opt('epoll_seed', rng.randint(1, 1 << 30))
    p.meta['vmsg'] = True
    p.cycle(connect(0, 0))
    p.cycle(send(0, 'do name u0\r\n'))
    ECHO = 3
    total = len(TELNET_INIT) + ECHO; mid = 0
    for _ in range(rng.randint(1, 4)):
        # the failure message's newline (CR LF) is to start in cell `at` of the ring
        at = rng.choice((4095, 4095, 4094, 4096 - len(FAILMSG) - 2, 0, 1, rng.randint(0, 4095)))
        need = (at - len(FAILMSG) - ECHO - total) % CAP
        if need < 60: need += CAP
        while need > 0:
            mid += 1
            ln = min(need, rng.choice((700, 1000, 1500)))
            # the message as the client sees it is longer than `ln` by its newlines: take the longest that still fits
            while ln > 2 and len(mkmsg(mid, ln).replace('\n', '\r\n')) + ECHO > need: ln -= 1
            if need - len(mkmsg(mid, ln).replace('\n', '\r\n')) - ECHO in range(1, 12):
                ln = max(2, ln - 12)           # (leave room for a last message: the shortest one has a dozen bytes with its echo)
            m = len(mkmsg(mid, ln).replace('\n', '\r\n')) + ECHO
            if m > need: break                 # (cannot be hit exactly: this round's message lands a few cells early)
            p.cycle(send(0, 'do out %d %d tell\r\n' % (mid, ln))); p.idle(1)
            need -= m; total += m
        p.cycle(send(0, 'df\r\n')); p.idle(1)
        total += ECHO + len(FAILMSG) + 2
        if rng.random() < 0.5:
            mid += 1; p.cycle(send(0, 'do out %d %d tell\r\n' % (mid, 40))); p.idle(1)
            total += ECHO + len(mkmsg(mid, 40).replace('\n', '\r\n'))
    p.idle(6)
    return p


def gen(rng, tier, i):
    if rng.random() < 0.05: return gen_vmsg(rng, tier, i)
    p = Plan()
    kind = rng.choice(('ascii', 'ascii', 'telnet'))
    defs = {'USER_PROCESS_INPUT': '1'}
    if kind == 'ascii': defs['ASCII_PORT'] = '4000'
    p.file('mcfg.h', mcfg(defs))
    p.cfg('Port', '4000:' + kind)
    p.cfg('MaxEvaluationCost', 5000000)
    p.opt('epoll_seed', rng.randint(1, 1 << 30))
    EOL = nl(kind)
    nusers = rng.randint(1, 3)
    fault_kinds = [k for k in ('partial', 'wouldblock', 'eintr', 'epipe', 'close', 'enobufs') if rng.random() < 0.6]
    mid = [0]

    def script(n):
        items = []
        for _ in range(n):
            r = rng.random()
            if r < 0.35 or not fault_kinds: items.append('a')
            else:
                k = rng.choice(fault_kinds)
                if k == 'partial': items.append('p%d' % rng.choice((1, 2, 3, 7, 100, 1000, 4095, rng.randint(1, 4100))))
                elif k == 'wouldblock': items.extend(['w'] * rng.randint(1, 6))
                elif k == 'eintr': items.append('i')
                elif k == 'enobufs': items.append('n')      # the kernel is short of buffers for a moment: nothing is closed, nothing may be lost
                elif k == 'epipe' and rng.random() < 0.15: items.append('e')
                else: items.append('a')
        return items

    for c in range(nusers):
        p.cycle(connect(0, c))
        # users stand in a room (shout() only reaches listeners that have an environment)
        p.cycle(send(c, ('do name u%d;clone /vobj room;move me room' if c == 0 else 'do name u%d;move me room') % c + EOL))
    alive = list(range(nusers))
    for _ in range(rng.randint(2, 14 if tier == 'quick' else 30)):
        if not alive: break
        c = rng.choice(alive)
        r = rng.random()
        steps = []
        if rng.random() < 0.7:
            steps.append(sendscript(c, script(rng.randint(1, 8))))
        if r < 0.6:
            ops = []
            for _ in range(rng.choice((1, 1, 2, 3, 6))):
                mid[0] += 1
                how = rng.choice(('tell', 'tell', 'receive', 'write', 'printf', 'shout') if kind == 'telnet' else ('tell', 'tell', 'receive', 'shout'))
                tgt = ''
                if how == 'tell' and rng.random() < 0.3 and len(alive) > 1:
                    tgt = ' u%d' % rng.choice(alive)
                ops.append('out %d %d %s%s' % (mid[0], rng.choice(LENS) if rng.random() < 0.7 else rng.randint(2, 8185), how, tgt))
            if rng.random() < 0.2: ops.append('flush')
            steps.append(send(c, 'do ' + ';'.join(ops) + EOL))
        elif r < 0.75:
            mid[0] += 1
            steps.append(send(c, 'do co k%d %d out %d %d tell' % (mid[0], rng.choice((0, 1, 2)), mid[0], rng.choice(LENS)) + EOL))
        elif r < 0.85:
            steps.append(tick())
        elif r < 0.92 and 'close' in fault_kinds:
            steps.append(rng.choice((eof(c), rst(c)))); alive.remove(c)
        else:
            steps.append('idle')
        p.cycle(*steps)
        if rng.random() < 0.5: p.idle(rng.randint(1, 3))
    # tail: windows open, everything accepted must drain
    p.cycle(*['openwindow %d' % c for c in range(nusers)])
    for _ in range(3):
        p.cycle(tick()); p.idle(2)
    p.idle(12)
    return p


TELNET_INIT = bytes.fromhex('fffc01fffd18fffd1ffffd22')


def _strip_telnet(b):
    """remove driver-generated telnet bytes: IAC x y sequences, IAC GA, and the newline echo CR CR LF"""
    out = bytearray(); i = 0
    while i < len(b):
        if b[i] == 0xff:
            if i + 1 < len(b) and b[i + 1] in (0xfb, 0xfc, 0xfd, 0xfe): i += 3
            else: i += 2
            continue
        if b[i:i + 3] == b'\r\r\n': i += 3; continue
        out.append(b[i]); i += 1
    return bytes(out)


def _matches(stream, msgs, limit=40):
    """decompositions of stream into prefixes of msgs in order (lists of prefix lengths), longest-prefix first.
    Where a message's continuation equals the start of the next one the split is ambiguous, so the cut may also sit
    up to three bytes earlier; short prefixes (<= 5 bytes, inside the id marker) are fully enumerated."""
    import sys
    n = len(msgs)
    dead = set()
    out = []

    budget = [4000]

    def lcp(m, pos):
        lim = min(len(m), len(stream) - pos)
        if stream[pos:pos + lim] == m[:lim]: return lim
        lo, hi = 0, lim       # invariant: first lo bytes equal, first hi bytes differ
        while hi - lo > 1:
            mid = (lo + hi) // 2
            if stream[pos:pos + mid] == m[:mid]: lo = mid
            else: hi = mid
        return lo

    def rec(pos, j, acc):
        if len(out) >= limit or budget[0] <= 0: return
        budget[0] -= 1
        if j == n:
            if pos == len(stream): out.append(list(acc))
            return
        if (pos, j) in dead: return
        m = msgs[j]
        k = lcp(m, pos)
        cands = [k] + [c for c in (k - 1, k - 2, k - 3) if c >= 0]
        if k <= 5: cands = list(range(k, -1, -1))
        before = len(out)
        for c in cands:
            acc.append(c); rec(pos + c, j + 1, acc); acc.pop()
        if len(out) == before: dead.add((pos, j))
    old = sys.getrecursionlimit(); sys.setrecursionlimit(10000)
    try: rec(0, 0, [])
    finally: sys.setrecursionlimit(old)
    return out


def check(plan, res):
    v = generic_crash_violations(PROP, res)
    if v: return v
    v += spin_violations(PROP, res)
    telnet = any(h.startswith('cfg Port') and 'telnet' in dec(h.split(' ')[2]).decode() for h in plan.header)
    # expected output per conn, in the order the driver was asked to produce it:
    #   [bytes, label, event idx when the write started, event idx when it was complete (None: evaluation aborted)]
    exp = {}
    pending = {}
    failed_at = {}
    txs = {}
    alias = {}       # object name or tag -> conn
    last_accept = None
    for idx, e in enumerate(res.events):
        if e.kind == 'accept': last_accept = int(e.kv()['conn'])
        if e.kind == 'R':
            w = e.rest.split(' ')
            if w[0] == 'CONNECT' and last_accept is not None and len(w) > 2:
                alias[w[2]] = last_accept; last_accept = None
            elif w[0] == 'NAME' and len(w) > 2 and w[2] in alias:
                alias[w[1]] = alias[w[2]]
            if w[0] == 'OUT' and len(w) >= 5:
                if w[1] not in alias: continue
                item = [mkmsg(int(w[2]), int(w[3])).replace('\n', '\r\n').encode(), 'message %s (%s)' % (w[2], w[4]), idx, None]
                exp.setdefault(alias[w[1]], []).append(item)
                pending.setdefault(w[2], []).append(item)      # shout: one message, several recipients
            elif w[0] == 'DFAIL' and len(w) > 1 and w[1] in alias:
                exp.setdefault(alias[w[1]], []).append([(FAILMSG + '\r\n').encode(), 'default failure message', idx, idx])
            elif w[0] == 'OUTDONE' and w[1] in pending:
                for it in pending[w[1]]: it[3] = idx
        elif e.kind == 'accept' and telnet:
            exp.setdefault(int(e.kv()['conn']), []).append([TELNET_INIT, 'telnet negotiation', idx, idx])
        elif e.kind == 'recv' and telnet and 'crnl=' in e.rest:
            kv = e.kv()
            for _ in range(int(kv['crnl'])):
                exp.setdefault(int(kv['conn']), []).append([b'\r\r\n', 'newline echo', idx, idx])
        if e.kind == 'tx':
            kv = e.kv(); c = int(kv['conn']); hx = e.rest.split(' ')[-1]
            txs.setdefault(c, []).append((idx, b'' if hx == '-' else bytes.fromhex(hx)))
        elif e.kind == 'send' and ('epipe' in e.rest or 'reset' in e.rest):
            failed_at.setdefault(int(e.kv()['conn']), idx)
        elif e.kind == 'recv' and (' eof' in e.rest or ' rst' in e.rest):
            failed_at.setdefault(int(e.kv()['conn']), idx)
        elif e.kind == 'close':
            failed_at.setdefault(int(e.kv()['conn']), idx)
    ring = {}
    for e in res.of('user'):
        kv = e.kv()
        if kv.get('when') == 'final' and kv.get('ring', '-') != '-': ring[int(kv['conn'])] = bytes.fromhex(kv['ring'])
    for c, lst in sorted(exp.items()):
        # what the driver accepted for this connection = what it transmitted + what still sits in its ring at the end
        stream = b''.join(b for _, b in txs.get(c, [])) + ring.get(c, b'')
        msgs = [it[0] for it in lst]
        pre = _best_decomp(stream, lst, txs.get(c, []), failed_at.get(c))
        decomps = [pre] if pre is not None else []
        if not decomps:
            v.append(Violation(PROP, 'stream', 'bytes sent to conn %d are not an in-order concatenation of message prefixes (%d messages, %d bytes)' % (c, len(msgs), len(stream)),
                               PROP + '/stream/not-prefix-concat'))
            continue
        best = None
        for pre in decomps:
            vv = _judge(c, lst, pre, txs.get(c, []), failed_at.get(c))
            if best is None or len(vv) < len(best): best = vv
            if not vv: break
        v += best
    # final state: nothing left in any ring once the windows have been open for a while, unless the connection failed
    ncyc = len(plan.cycles)
    opened = {}
    for ci, cyc in enumerate(plan.cycles):
        for st in cyc:
            op, a = parse_step(st)
            if op == 'openwindow': opened[int(a[0])] = ci
            elif op in ('sendscript', 'send') and int(a[0]) in opened: del opened[int(a[0])]
    for e in res.of('user'):
        kv = e.kv()
        c = int(kv['conn'])
        if kv.get('when') == 'final' and int(kv['outlen']) != 0 and c in opened and ncyc - opened[c] >= 6 and c not in failed_at:
            v.append(Violation(PROP, 'undrained', 'conn %s still holds %s unsent bytes %d cycles after its window opened for good' % (kv['conn'], kv['outlen'], ncyc - opened[c]),
                               PROP + '/liveness/ring-not-drained'))
    return v


def _best_decomp(stream, lst, txlist, fidx):
    """the decomposition of stream into in-order message prefixes that explains it with the fewest violations (memoised
    search over (position, message); the candidates at each cut are those of _matches).  None if there is none."""
    import sys, bisect
    n = len(lst)
    tx_idx = [i for i, x in txlist]; tx_cum = [0]
    for i, x in txlist: tx_cum.append(tx_cum[-1] + len(x))

    def sent_before(didx): return tx_cum[bisect.bisect_left(tx_idx, didx)]

    def lcp(m, pos):
        lim = min(len(m), len(stream) - pos)
        if stream[pos:pos + lim] == m[:lim]: return lim
        lo, hi = 0, lim
        while hi - lo > 1:
            mid = (lo + hi) // 2
            if stream[pos:pos + mid] == m[:mid]: lo = mid
            else: hi = mid
        return lo
    memo = {}

    def g(pos, j):
        # -> {suffix_has_bytes: (cost, k or None)}
        if j == n: return {False: (0, None)} if pos == len(stream) else {}
        key = (pos, j)
        if key in memo: return memo[key]
        mm, label, oidx, didx = lst[j]
        k0 = lcp(mm, pos)
        cands = [k0] + [c for c in (k0 - 1, k0 - 2, k0 - 3) if c >= 0]
        if k0 <= 5: cands = list(range(k0, -1, -1))
        best = {}
        for k in cands:
            sub = g(pos + k, j + 1)
            for hb2, ent in sub.items():
                cost2 = ent[0]
                exempt = (fidx is not None and not hb2) or didx is None or k == len(mm)
                local = 0
                if not exempt:
                    if k > 0 and mm[k - 1:k] == b'\r' and mm[k:k + 1] == b'\n' and mm != b'\r\r\n': local += 1
                    if (pos + k) - sent_before(didx) < CAP - 1: local += 1
                hb = hb2 or k > 0
                tot = cost2 + local
                if hb not in best or tot < best[hb][0]: best[hb] = (tot, k, hb2)
        memo[key] = best
        return best
    old = sys.getrecursionlimit(); sys.setrecursionlimit(max(old, 4 * n + 1000))
    try:
        top = g(0, 0)
        if not top: return None
        hb = min(top, key=lambda h: top[h][0])
        pre = []; pos = 0
        for j in range(n):
            tot, k, hb2 = memo[(pos, j)][hb]
            pre.append(k); pos += k; hb = hb2
        return pre
    finally: sys.setrecursionlimit(old)


def _judge(c, lst, pre, txlist, fidx):
    v = []
    last_with_bytes = max([j for j, k in enumerate(pre) if k > 0], default=-1)
    acc = 0
    for j, ((mm, label, oidx, didx), k) in enumerate(zip(lst, pre)):
        acc += k
        if k == len(mm): continue
        if fidx is not None and j >= last_with_bytes:
            continue    # the connection failed: whatever had not been transmitted by then is legitimately lost
        if didx is None:
            continue    # the writing evaluation did not complete (error): the message may be partial
        sent = sum(len(x) for i, x in txlist if i < didx)
        occ = acc - sent
        if k > 0 and mm[k - 1:k] == b'\r' and mm[k:k + 1] == b'\n' and mm != b'\r\r\n':
            v.append(Violation(PROP, 'crlf-split', '%s to conn %d cut between CR and LF' % (label, c), PROP + '/cut/between-cr-lf'))
        if occ < CAP - 1:
            v.append(Violation(PROP, 'lost', '%s, %d bytes, to conn %d lost its tail after %d bytes while the ring held only %d of %d bytes' % (label, len(mm), c, k, occ, CAP),
                               PROP + '/lost/ring-not-full'))
            break
    return v


def _sent_before(txlist, idx, telnet):
    b = b''.join(x for i, x in txlist if i < idx)
    return len(_strip_telnet(b)) if telnet else len(b)


def summarize(plan, res):
    st = res.stats()
    kinds = []
    for e in res.events:
        if e.kind == 'R' and e.rest.startswith('OUT '):
            w = e.rest.split(' '); ln = int(w[3])
            kinds.append('o%d' % (0 if ln == 0 else 1 if ln < 100 else 2 if ln < 4000 else 3 if ln < 4200 else 4))
        elif e.kind == 'send': kinds.append('s' + e.rest.split(' ')[-1][:2])
        elif e.kind == 'tx':
            kv = e.kv(); kinds.append('t' if kv['n'] == kv['of'] else 'p')
    nf = st.get('send_partial', 0) + st.get('send_wouldblock', 0) + st.get('send_eintr', 0) + st.get('send_epipe', 0) + st.get('window_closed_cycles', 0)
    return {'nontrivial': nf > 0, 'abstract': hashlib.sha256(' '.join(kinds).encode()).hexdigest()[:16], 'probes': {}}
