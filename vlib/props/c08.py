# C08 - object names, inventories and destruction stay consistent.
# Engine W-loop: a seeded history of load/clone/move/destruct/enable_commands/set_living_name/command operations issued from
# top level and re-entrantly from create/init/id/catch_tell/move_or_destruct/heart_beat hooks (hooks that move, clone and
# destruct themselves, their environment or siblings, or fail), with LPC errors injected into commands.  After every command
# (and in the middle of hooks) the simulator walks the driver's object structures, and an LPC-visible dump is compared with
# itself (internal consistency) and, for hook-free histories, with an abstract model.
import re, hashlib
from ..core import Plan, Violation, generic_crash_violations
from ..world import *

PROP = 'C08'
LEVEL = 'exploration'
RULE = ('one run = a seeded history of 5-40 commands over 3-12 objects (clones, named blueprints, two users): clone, load, move, '
        'destruct, enable_commands, set_living_name, command, present/say (id/catch_tell applies), heart beats, failing variants '
        '(move into itself or its own inventory, clone of a clone, load of a missing file, load vetoed by master::valid_object), in '
        'two classes: "model" (no hook scripts: every step is predicted by an abstract world) and "hooks" (create/init/id/'
        'catch_tell/move_or_destruct/heart_beat/command hooks that re-entrantly move, clone, destruct self/environment/sibling, '
        'raise errors; plus errors injected at a seeded instruction of a command). non-trivial = at least one destruct and one '
        'move happened; distinct = distinct abstract outcome sequence.')
RULE += (' Later additions: ObjectHashSize as a per-run knob (1, 2, 4, 8, 64, default); virtual objects with names of 1500-2100 letters, printed with write().')
COMPONENTS = {'real': ['src/simulate.c load_object/clone_object/move_object/destruct_object/remove_destructed_objects', 'lib/lpc/otable.c', 'lib/lpc/object.c living hash',
                       'lib/efuns (environment, all_inventory, objects, livings, find_object, present, say, command, set_heart_beat)', 'src/backend.c heart beats', 'src/comm.c'],
              'stub': ['kernel sockets/clock/timer (simulated)'],
              'hook': ['per-instruction callback (NEOLITH_VERIF) for injected errors; the structure walker reads the driver globals directly']}
ASSUMPTIONS = ['the structure walker runs at every backend cycle and whenever a script executes the walk op (also inside hooks)',
               'in the hooks class only internal consistency is demanded (the hook firing order is not modelled)',
               'virtual objects and replace_program are not driven']

FILES = ['/wobj', '/wobj', '/wobj', '/w/b1', '/w/b2', '/w/b3']
HOOKS = ['init', 'id', 'catch_tell', 'mod', 'hb', 'x', 'reset']


def _hook_script(rng, tags, st, sep, hk=None):
    ops = []
    for _ in range(rng.randint(1, 3)):
        r = rng.random()
        t = rng.choice(tags)
        # the hook moves the object it sits in (from move_or_destruct: the container that is being destructed right now)
        if rng.random() < (0.3 if hk == 'mod' else 0.06): ops.append('wmove env %s' % t)
        elif r < 0.18: ops.append('wdest me')
        elif r < 0.30: ops.append('wdest %s' % t)
        elif r < 0.38: ops.append('wdest env')
        elif r < 0.52: ops.append('wmove me %s' % t)
        elif r < 0.62: ops.append('wmove %s me' % t)
        elif r < 0.72:
            st['n'] += 1; ops.append('wclone /wobj h%d' % st['n'])
        elif r < 0.80: ops.append('walk')
        elif r < 0.86: ops.append('err')
        elif r < 0.90: ops.append('living')
        elif r < 0.93: ops.append(rng.choice(('rmx', 'addx')))
        else: ops.append('wmove %s %s' % (t, rng.choice(tags)))
    return sep.join(ops)


def gen(rng, tier, i):
    p = Plan()
    deny = rng.random() < 0.25
    p.file('mcfg.h', mcfg({'VALID_OBJECT_DENY': '"/w/b2"'} if deny else {}))
    p.cfg('Port', '4000:telnet')
    p.cfg('MaxEvaluationCost', 500000)
    p.cfg('MaxInheritDepth', 4)
    # the size of the object name table is a tuning knob: with a handful of buckets every chain holds several objects, so the
    # chain operations (find with move-to-front, unlink of the first, a middle, the last entry) all run with a small population
    hs = rng.choice((1, 2, 4, 8, 64, 0, 0))
    if hs: p.cfg('ObjectHashSize', hs)
    p.opt('c08_walk', 1)
    p.opt('fault_exempt_master', 1)
    cls = 'model' if rng.random() < 0.4 else 'hooks'
    p.opt('c08_class', cls)
    p.opt('c08_deny', 1 if deny else 0)
    st = {'n': 0}
    tags = ['u0']
    def cmd(text, c=0): return p.cycle(send(c, 'do ' + text + ';walk;wdump\r\n'))
    p.cycle(connect(0, 0))
    two = rng.random() < 0.4
    if two: p.cycle(connect(0, 1))
    cmd('name u0')
    if two:
        cmd('name u1', 1); tags.append('u1')
    nt = [0]
    def newtag():
        nt[0] += 1; return 't%d' % nt[0]
    def mk():
        t = newtag(); f = rng.choice(FILES)
        tags.append(t)
        return ('wclone %s %s' if (f == '/wobj' or rng.random() < 0.3) else 'wload %s %s') % (f, t)
    cmd(';'.join(mk() for _ in range(rng.randint(3, 6))))
    if cls == 'hooks':
        # a dense start: some living objects and hook scripts on most objects
        objs0 = [t for t in tags if not t.startswith('u')]
        for t in rng.sample(objs0, min(len(objs0), rng.randint(1, 3))): cmd('as %s living' % t)
        for t in tags:
            for hk in HOOKS:
                if rng.random() < (0.35 if hk in ('init', 'mod') else 0.15):
                    if hk == 'x' or not t.startswith('u'): cmd('sc %s %s %s' % (t, hk, _hook_script(rng, tags, st, ',', hk)))
    big = tier != 'quick' and rng.random() < 0.1
    if big:
        # a large population to cross hash-table and chunk sizes
        for b in range(6):
            cmd(';'.join('wclone /wobj ' + newtag() for _ in range(50)))
        tags += ['t%d' % k for k in range(nt[0] - 299, nt[0] + 1) if k % 37 == 0]
    n = rng.randint(5, 25 if tier == 'quick' else 40)
    for k in range(n):
        r = rng.random()
        objs = [t for t in tags if not t.startswith('u')] or ['t1']
        a = rng.choice(objs); b = rng.choice(tags)
        if cls == 'hooks' and r < 0.18:
            hk = rng.choice(HOOKS)
            text = 'sc %s %s %s' % (rng.choice(tags) if hk == 'x' else a, hk, _hook_script(rng, tags, st, ',', hk))
        elif cls == 'hooks' and r < 0.22:
            text = 'setcs %s;%s' % (_hook_script(rng, tags, st, ','), mk())
        elif r < 0.30 and rng.random() < 0.1:
            # a virtual object whose name is as long as names get (the driver prints names into fixed buffers here and there)
            text = 'wvol %d clone %s' % (rng.choice((1500, 2030, 2040, 2043, 2044, 2045, 2100)), newtag())
        elif r < 0.30 and rng.random() < 0.35:
            # virtual objects: master::compile_object answers for a name without a file
            vn = '/v/x%d' % rng.randint(1, 3)
            # (a virtual name may look like the name a later clone will be given)
            if rng.random() < 0.25: vn = '/wobj#%d' % rng.randint(3, 12)
            how = rng.choice(('clone', 'clone', 'again', 'dead', 'int', 'err', 'tag:' + rng.choice(tags), 'master'))
            text = 'wvo %s %s;%s %s %s' % (vn, how, rng.choice(('wload', 'wclone')), vn, newtag())
            tags.append('t%d' % nt[0])
        elif cls == 'hooks' and r < 0.27:
            # move to a destination given by file name: it is loaded on the way, and its create() may destruct or move the mover
            hs = rng.choice(('wdest %s' % a, 'wdest %s,walk' % a, 'wmove %s %s' % (a, b), _hook_script(rng, tags, st, ',')))
            text = 'setcs %s;wmoves %s %s' % (hs, a, rng.choice(('/w/b1', '/w/b2', '/w/b3')))
        elif r < 0.32: text = mk()
        elif r < 0.55: text = 'wmove %s %s' % (a, b)
        elif r < 0.60: text = 'wmove %s %s' % (a, a)
        elif r < 0.72: text = 'wdest %s' % a
        elif r < 0.78: text = 'as %s living' % a
        elif r < 0.83: text = 'as %s cmd x' % rng.choice(tags)
        elif r < 0.87: text = 'whold %s' % a if rng.random() < 0.5 else 'as %s whold %s' % (a, rng.choice(objs))
        elif r < 0.90: text = 'present %s' % b
        elif r < 0.93: text = 'as %s say hi' % a
        elif r < 0.95: text = 'as %s lname n%d' % (a, rng.randint(0, 3))
        elif r < 0.96: text = 'reclaim'
        elif r < 0.97: text = 'hb %s 1' % a
        elif r < 0.985: text = 'wclone /wobj#%d %s' % (rng.randint(2, 5), newtag())
        else: text = 'wload /w/missing %s' % newtag()
        c = 1 if (two and rng.random() < 0.3) else 0
        j = cmd(text, c)
        if cls == 'hooks' and rng.random() < 0.12:
            p.cycles[j].insert(0, fault(rng.randint(0, 250), rng.choice(('error', 'error', 'stackroom:%d' % rng.choice((0, 1, 2, 3, 5, 8))))) )
        if rng.random() < 0.08: p.cycle(tick())
    cmd('wdump')
    p.idle(1)
    return p


class World:
    """abstract world for the hook-free class"""
    def __init__(self): self.env = {}; self.inv = {}; self.alive = set()
    def add(self, t): self.alive.add(t); self.env[t] = None; self.inv[t] = []
    def inside(self, a, b):
        """is b inside a (or b == a)?"""
        x = b
        while x is not None:
            if x == a: return True
            x = self.env.get(x)
        return False
    def move(self, a, b):
        if a not in self.alive or b not in self.alive: return 'skip'
        if self.inside(a, b): return 'error'
        if self.env[a] is not None: self.inv[self.env[a]].remove(a)
        self.env[a] = b; self.inv[b].insert(0, a)
        return 'ok'
    def dest(self, a):
        if a not in self.alive: return
        for c in list(self.inv[a]): self.dest(c)
        if self.env[a] is not None: self.inv[self.env[a]].remove(a)
        self.alive.discard(a); self.env.pop(a, None); self.inv.pop(a, None)


def parse_dump(rest):
    d = {'obj': {}, 'F': {}, 'O': [], 'L': [], 'U': [], 'H': {}}
    for item in rest.split(' ')[1:]:
        if item.startswith('F:'):
            t, name, found = item[2:].split('=')
            d['F'][t] = (name, found)
        elif item.startswith('O:'): d['O'] = [x for x in item[2:].split('+') if x]
        elif item.startswith('L:'): d['L'] = [x for x in item[2:].split('+') if x]
        elif item.startswith('U:'): d['U'] = [x for x in item[2:].split('+') if x]
        elif item.startswith('H:'):
            t, hs = item[2:].split('=')
            d['H'][t] = [x for x in hs.split('+') if x]
        else:
            t, val = item.split('=', 1)
            if val == '0': d['obj'][t] = None
            else:
                f = val.split(',')
                d['obj'][t] = {'env': f[1], 'inv': [x for x in f[2].split('+') if x], 'living': f[3] == '1', 'hb': f[4] == '1', 'inter': f[5] == '1'}
    return d


def check(plan, res):
    v = generic_crash_violations(PROP, res)
    if v: return v
    out = []
    def bad(kind, msg, cls):
        out.append(Violation(PROP, kind, msg, PROP + '/' + cls))
    opts = plan.opts()
    cls_ = opts.get('c08_class', 'hooks')
    deny = opts.get('c08_deny') == '1'
    # structure walker reports
    for e in res.events:
        if e.kind == 'V' and e.rest.startswith('C08.'):
            what = e.rest.split(' ')[0][4:]
            bad('structure', 'structure walk in cycle %d: %s' % (e.cycle, e.rest), 'structure/' + what)
    dead_since = {}
    holds = []                 # (holder, target)
    world = World() if cls_ == 'model' else None
    model_ok = True
    cur_cycle = -1
    for e in res.events:
        if e.kind != 'R': continue
        w = e.rest.split(' ')
        if w[0] in ('HOOK', 'X', 'HB') and len(w) > 1:
            t = w[1]
            if t in dead_since and dead_since[t] < e.cycle:
                bad('zombie', 'object %s was destructed in cycle %d but ran %s in cycle %d' % (t, dead_since[t], ' '.join(w[:3]), e.cycle), 'zombie/' + w[0].lower())
        elif w[0] == 'NAME':
            if world is not None: world.add(w[1])
        elif w[0] == 'HOLD': holds.append((w[1], w[2]))
        elif w[0] == 'WNEW':
            tag, how, file, ok, gtag, err = w[1], w[2], w[3], w[4][3:], w[5][4:], w[6][4:]
            created = ok != '0' and gtag == tag
            if world is not None:
                if file.startswith('/v/') or re.fullmatch(r'/wobj#\d+', file): must_fail = None        # virtual names (some look like clone names): whatever the master's compile_object decides
                else: must_fail = ('#' in file) or file == '/w/missing' or (deny and file == '/w/b2')
                if must_fail is True and ok != '0':
                    bad('creation', '%s %s must fail but yielded %s' % (how, file, ok), 'creation/should-fail')
                if must_fail is False and ok == '0':
                    bad('creation', '%s %s failed' % (how, file), 'creation/should-succeed')
                if created: world.add(tag)
        elif w[0] == 'WMOVE' and world is not None:
            a, b = w[1], w[2]
            if b == 'me': b = None   # not used at top level by the generator
            r = world.move(a, b)
            got = 'skip' if w[3] == 'skip' else ('error' if w[3] == 'err=1' else 'ok')
            if r != got:
                bad('model', 'move %s -> %s: driver says %s, abstract world says %s' % (a, b, got, r), 'model/move-outcome')
        elif w[0] == 'WDEST' and world is not None:
            if w[1] != '0': world.dest(w[1])
        elif w[0] == 'WDUMP':
            d = parse_dump(e.rest)
            objs = d['obj']
            live = {t for t, o in objs.items() if o is not None}
            for t, o in objs.items():
                if o is None:
                    dead_since.setdefault(t, e.cycle)
                elif t in dead_since:
                    bad('resurrect', 'tag %s read as destructed in cycle %d and is alive again in cycle %d' % (t, dead_since[t], e.cycle), 'dump/resurrected')
            # 1. environment <-> inventory agreement, one inventory per object
            where = {}
            for t in live:
                for c in objs[t]['inv']:
                    if c in where: bad('dump', '%s is listed in the inventories of %s and %s' % (c, where[c], t), 'dump/two-inventories')
                    where[c] = t
                    if c in objs and objs[c] is None: bad('dump', 'destructed %s is listed in the inventory of %s' % (c, t), 'dump/destructed-in-inventory')
                    elif c in objs and objs[c]['env'] != t: bad('dump', '%s is in all_inventory(%s) but environment(%s) is %s' % (c, t, c, objs[c]['env']), 'dump/inventory-vs-environment')
                    if objs[t]['inv'].count(c) > 1: bad('dump', '%s twice in all_inventory(%s)' % (c, t), 'dump/twice-in-inventory')
            for t in live:
                en = objs[t]['env']
                if en != '0':
                    if en in objs and objs[en] is None: bad('dump', 'environment of %s is the destructed %s' % (t, en), 'dump/destructed-environment')
                    elif en in objs and t not in objs[en]['inv']: bad('dump', 'environment(%s) is %s but all_inventory(%s) does not list it' % (t, en, en), 'dump/environment-vs-inventory')
                # forest
                x = t; steps = 0
                while x in objs and objs[x] is not None and objs[x]['env'] != '0' and steps < 1000:
                    x = objs[x]['env']; steps += 1
                    if x == t: bad('dump', '%s is inside itself' % t, 'dump/cycle'); break
            # 2. names
            byname = {}
            for t, (name, found) in d['F'].items():
                if t in live: byname.setdefault(name, []).append(t)
            for name, ts in byname.items():
                if len(ts) > 1: bad('dump', 'live objects %s all carry the name %s' % (ts, name), 'dump/duplicate-name')
            for t, (name, found) in d['F'].items():
                want = byname.get(name, ['0'])[0]
                if found in live and found not in d['F']: continue      # the name of that object was never recorded (its creation command failed half-way)
                if found != want and not (want == '0' and found not in objs):
                    bad('dump', 'find_object(%s) yields %s, the live object carrying that name is %s' % (name, found, want), 'dump/find-object')
            # 3. global lists contain no destructed object and every live tagged object
            for lst, nm in ((d['O'], 'objects()'), (d['L'], 'livings()'), (d['U'], 'users()')):
                for x in lst:
                    if x in objs and objs[x] is None: bad('dump', 'destructed %s is listed by %s' % (x, nm), 'dump/destructed-listed')
                if len(set(lst)) != len(lst): bad('dump', '%s lists an object twice' % nm, 'dump/listed-twice')
            for t in live:
                if t not in d['O']: bad('dump', 'live object %s is missing from objects()' % t, 'dump/missing-from-objects')
                if objs[t]['living'] != (t in d['L']): bad('dump', 'living(%s) is %s but livings() %s it' % (t, objs[t]['living'], 'lists' if t in d['L'] else 'does not list'), 'dump/livings')
                if objs[t]['inter'] != (t in d['U']): bad('dump', 'interactive(%s) disagrees with users()' % t, 'dump/users')
            # 4. references to destructed objects read as 0; references to live ones stay
            for holder, hs in d['H'].items():
                exp = [tg for (h, tg) in holds if h == holder]
                if len(exp) == len(hs):
                    for tg, got in zip(exp, hs):
                        want = tg if tg in live else '0'
                        if got != want: bad('dump', 'reference to %s held by %s reads as %s, expected %s' % (tg, holder, got, want), 'dump/held-reference')
            # 5. abstract world
            if world is not None and model_ok:
                for t in sorted(world.alive):
                    if t not in objs: continue
                    if objs[t] is None:
                        bad('model', '%s is destructed, the abstract world has it alive' % t, 'model/unexpected-destruct'); model_ok = False; break
                    we = world.env[t] or '0'
                    if objs[t]['env'] != we:
                        bad('model', 'environment(%s) is %s, abstract world says %s' % (t, objs[t]['env'], we), 'model/environment'); model_ok = False; break
                    if objs[t]['inv'] != world.inv[t]:
                        bad('model', 'all_inventory(%s) is %s, abstract world says %s' % (t, objs[t]['inv'], world.inv[t]), 'model/inventory'); model_ok = False; break
                for t in live:
                    if t not in world.alive and t in dead_since:
                        pass
                for t, o in objs.items():
                    if o is not None and t not in world.alive and not t.startswith('h'):
                        bad('model', '%s is alive, the abstract world has it destructed' % t, 'model/should-be-destructed'); model_ok = False; break
            if deny and any(name == '/w/b2' and found != '0' for (name, found) in d['F'].values()):
                bad('veto', 'an object named /w/b2 exists although master::valid_object refused it', 'veto/object-exists')
            if deny and '/w/b2' in d['O']:
                bad('veto', '/w/b2 is listed by objects() although master::valid_object refused it', 'veto/object-listed')
    seen = set(); res_ = []
    for x in out:
        if x.cls in seen: continue
        seen.add(x.cls); res_.append(x)
    return res_


def summarize(plan, res):
    kinds = []; nd = nm = 0
    for e in res.events:
        if e.kind == 'R':
            w = e.rest.split(' ')
            if w[0] == 'WDESTDONE': nd += 1; kinds.append('D' + w[2][-1])
            elif w[0] == 'WMOVE': nm += 1; kinds.append('M' + w[3][-1])
            elif w[0] == 'WNEW': kinds.append('N' + ('1' if w[4] != 'ok=0' else '0'))
            elif w[0] == 'HOOK': kinds.append('h' + w[2][:2])
            elif w[0] == 'ERR': kinds.append('E')
        elif e.kind == 'fault_fired': kinds.append('F')
    return {'nontrivial': nd > 0 and nm > 0, 'abstract': hashlib.sha256(' '.join(kinds).encode()).hexdigest()[:16],
            'probes': {'destructs': nd, 'moves': nm, 'hook_invocations': sum(1 for k in kinds if k.startswith('h')),
                       'faults_fired': sum(1 for k in kinds if k == 'F'), 'errors': sum(1 for k in kinds if k == 'E'),
                       'destruct_inside_hook': sum(1 for i, k in enumerate(kinds) if k.startswith('D') and i > 0 and kinds[i - 1].startswith('h'))}}
