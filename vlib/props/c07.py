# C07 - calls reach the right function and respect visibility, whatever came before.
# Engine W-sweep: a generated inheritance fixture and a seeded history of calls from every kind of caller run once in the
# order the plan gives (warm caches, reloads in between); then every call of the history is executed alone as the first
# call of a fresh driver life (cold cache).  Outcomes must be identical, and must agree with a reference resolver where the
# documented rules fix the answer.
import re, hashlib
from ..core import Plan, Violation, generic_crash_violations
from ..world import *

PROP = 'C07'
LEVEL = 'exploration'
RULE = ('scenario = 3-6 generated programs (chains, trees, multiple inheritance of independent bases; plain, private and static inherit; '
        'functions f0-f5 public/static/private/protected, overriding, prototypes, :: calls; one variable per level) and a history of 10-40 '
        'calls (target object, name, caller kind): call_other from another object, call_other from the object itself, local call compiled '
        'in the object\'s own program or in an ancestor, :: call, function pointer made in any level, call_out, add_action command, calls to '
        'undefined names, with destruct+reload of programs in between. Base run = the whole history in one driver life; one more run per '
        'call = that call alone in a fresh life. non-trivial = the call ran or was refused by visibility; distinct = distinct '
        '(caller kind, visibility, depth of the defining program).')
RULE += (' Later additions: after every call_other the caller reads one of its own variables and calls one of its own functions.')
COMPONENTS = {'real': ['src/apply.c (apply cache, find_function_by_name2, function_visible)', 'lib/lpc/program.c function tables', 'lib/lpc/compiler.c inheritance (copy_functions, overrides, visibility modifiers)',
                       'src/interpret.c call_function_by_address / function_index_offset / variable_index_offset', 'lib/lpc/functional.c', 'lib/efuns/call_out.c', 'src/simulate.c user_parser'],
              'stub': ['kernel sockets/clock/timer (simulated)']}
ASSUMPTIONS = ['the reference resolver only answers where the rules are unambiguous: a name defined once in the inherit closure, or overridden along a single chain; everything else is judged by the cold/warm comparison alone',
               'call_other on a static, private or protected function is refused whoever the caller is (that is how this driver treats call_other from the object itself too)',
               'heap-address-order perturbation is not applied']

FN = ['f0', 'f1', 'f2', 'f3', 'f4', 'f5']
MODS = ['', '', '', 'static', 'private', 'protected', 'public']


class Fixture:
    def __init__(self, rng):
        self.rng = rng
        n = rng.randint(3, 7)
        names = ['a', 'b', 'c', 'd', 'e', 'f', 'g'][:n]
        self.progs = {}
        nroots = rng.choice((1, 2, 2, 3))
        for i, x in enumerate(names):
            parents = []
            if i >= nroots:
                want2 = rng.random() < 0.55
                cand = names[:i]
                rng.shuffle(cand)
                # prefer parents that themselves inherit from two programs (deeper offset arithmetic)
                cand.sort(key=lambda q: -len(self.progs[q]['parents']) if rng.random() < 0.5 else 0)
                for pnt in cand:
                    if len(parents) >= (2 if want2 else 1): break
                    # no common ancestor between two parents (no diamonds)
                    if any(set(self.closure(pnt)) & set(self.closure(q)) for q, _ in parents): continue
                    parents.append((pnt, rng.choice(('', '', '', 'private', 'static'))))
            self.progs[x] = {'parents': parents, 'funcs': {}}
            for fn in FN:
                if rng.random() < 0.45:
                    self.progs[x]['funcs'][fn] = rng.choice(MODS)
            # a name that two parents bring along is usually redefined here; when it is not, only the agreement between the
            # compiled (local) call and the run-time lookup (call_other) is judged
            for fn in FN:
                defs = [q for q, _ in parents if self.defined_in_closure(q, fn)]
                if len(defs) > 1 and fn not in self.progs[x]['funcs'] and rng.random() < 0.35: self.progs[x]['funcs'][fn] = ''
        # a name that reaches a program through two parents and is not redefined there - with non-public definitions on both
        # sides - is the shape in which the compiler keeps an extra "alias" slot per inherit level
        for x in names:
            ps = self.progs[x]['parents']
            if len(ps) == 2 and rng.random() < 0.5:
                fn = rng.choice(FN)
                if fn in self.progs[x]['funcs']: del self.progs[x]['funcs'][fn]
                for q, _ in ps:
                    self.progs[q]['funcs'][fn] = rng.choice(('static', 'private', 'protected', 'private', ''))
        for x in names:
            self.progs[x]['locals'] = {fn: rng.choice((0, 0, 3, 8, 14, 20)) for fn in FN}
        self.names = names
        self.replacer = None
        if rng.random() < 0.4:
            # a program that replaces itself by its only parent (replace_program): afterwards the object runs the parent's
            # program under its own name, and calls must resolve exactly as in the parent
            x = rng.choice(names)
            self.progs['r'] = {'parents': [(x, '')], 'funcs': {}}
            self.names = names + ['r']; self.replacer = x

    def closure(self, x):
        out = [x]
        for q, _ in self.progs[x]['parents']: out += self.closure(q)
        return out

    def defined_in_closure(self, x, fn):
        return any(fn in self.progs[y]['funcs'] for y in self.closure(x))

    def visible_in(self, x, fn):
        """can code compiled in program x name fn? (own definition, or inherited and not private)"""
        if fn in self.progs[x]['funcs']: return True
        defs = [q for q, _ in self.progs[x]['parents'] if self.defined_in_closure(q, fn)]
        # when two parents bring the name along the driver picks one of them: only name it when every candidate may be called
        return bool(defs) and all(self.callable_from_child(q, fn) for q in defs)

    def callable_from_child(self, q, fn):
        if fn in self.progs[q]['funcs']: return self.progs[q]['funcs'][fn] != 'private'
        defs = [(r, m) for r, m in self.progs[q]['parents'] if self.defined_in_closure(r, fn)]
        return bool(defs) and all(m != 'private' and self.callable_from_child(r, fn) for r, m in defs)

    def super_ok(self, x, fn):
        ps = [q for q, _ in self.progs[x]['parents'] if self.callable_from_child(q, fn)]
        return len(ps) == 1

    def text(self, x):
        pr = self.progs[x]
        if x == 'r' and self.replacer:
            return 'inherit "/c/%s";\nvoid create() { replace_program("/c/%s"); }\n' % (self.replacer, self.replacer)
        L = []
        for q, m in pr['parents']: L.append('%sinherit "/c/%s";' % (m + ' ' if m else '', q))
        L.append('string lv_%s = "%s";' % (x, x.upper()))
        for fn, mod in sorted(pr['funcs'].items()):
            nl = pr.get('locals', {}).get(fn, 0)
            L.append('%sstring %s() { %srec("F %s.%s:" + lv_%s); return "%s.%s:" + lv_%s; }' % (mod + ' ' if mod else '', fn, ('mixed ' + ', '.join('q%d' % j for j in range(nl)) + '; ') if nl else '', x, fn, x, x, fn, x))
        vis = [fn for fn in FN if self.visible_in(x, fn)]
        L.append('mixed local_%s(string n) { %s return "nolocal"; }' % (x, ' '.join('if (n == "%s") return %s();' % (fn, fn) for fn in vis)))
        sup = [fn for fn in FN if self.super_ok(x, fn)]
        L.append('mixed super_%s(string n) { %s return "nosuper"; }' % (x, ' '.join('if (n == "%s") return ::%s();' % (fn, fn) for fn in sup)))
        L.append('mixed fp_%s(string n) { function f; %s if (!f) return "nofp"; return evaluate(f); }' % (x, ' '.join('if (n == "%s") f = (: %s :);' % (fn, fn) for fn in vis)))
        for fn in FN + ['f9']:
            L.append('mixed sco_%s_%s() { return this_object()->%s(); }' % (x, fn, fn))          # constant name: the apply cache is keyed by the name pointer
            L.append('mixed sout_%s_%s() { call_out("%s", 0); return "scheduled"; }' % (x, fn, fn))
        # a functional that calls an inherited function, re-bound to an unrelated object: the inherited code would run on that
        # object's variables, so bind() has to refuse it exactly as it refuses a functional with a local call
        L.append('mixed bsup_%s(string n) { function f; %s if (!f) return "nosuper"; f = bind(f, find_object("/c/caller")); return evaluate(f); }' % (x, ' '.join('if (n == "%s") f = (: ::%s() :);' % (fn, fn) for fn in sup)))
        L.append('mixed bloc_%s(string n) { function f; %s if (!f) return "nolocal"; f = bind(f, find_object("/c/caller")); return evaluate(f); }' % (x, ' '.join('if (n == "%s") f = (: %s() :);' % (fn, fn) for fn in vis)))
        L.append('mixed hco_%s(string n) { return call_other(this_object(), n); }' % x)
        L.append('mixed hcallout_%s(string n) { call_out(n, 0); return "scheduled"; }' % x)
        L.append('mixed hcmd_%s(string n) { enable_commands(); add_action(n, "v" + n); return "cmd:" + command("v" + n); }' % x)
        return '\n'.join(L) + '\n'


# deep_<fn>: the call is made with the value stack nearly used up (the depth is set by the plan, one evaluation per depth,
# from too deep to comfortably shallow): somewhere in between the target's own frame is the one that does not fit
CALLER = 'int dn;\nmixed setn(string s) { dn = to_int(s); return dn; }\n' + '\n'.join(
    'mixed deep_%s(object o, int n) { mixed p0, p1, p2, p3; if (n > 0) return deep_%s(o, n - 1); return o->%s(); }\nmixed dp_%s(string path) { return deep_%s(load_object(path), dn); }' % (fn, fn, fn, fn, fn) for fn in FN + ['f9']) + '\n'
# after the call the caller looks at itself: one of its own variables and a call to one of its own functions (a call that is
# refused, or one that fails, must leave the caller's frame as it was)
CALLER += 'string cmark = "CM";\nint cself() { return 4711; }\nvoid create() { seteuid(getuid()); }\n' + '\n'.join(
    'mixed co_%s(string path) { mixed r; r = load_object(path)->%s(); if (cmark != "CM" || cself() != 4711) rec("SELFBAD co_%s"); return r; }' % (fn, fn, fn) for fn in FN + ['f9']) + '\n'


def _calls(rng, fx, n, deep=False):
    out = []
    for _ in range(n):
        ob = rng.choice(fx.names + fx.names[-2:] * 2)
        fn = rng.choice(FN + ['f9'])
        amb = [(o2, f2) for o2 in fx.names for f2 in FN if len(_candidates(fx.progs, o2, f2)) > 1]
        if amb and rng.random() < 0.2: ob, fn = rng.choice(amb)
        kind = rng.choice(('co', 'co', 'cco', 'cco', 'aco', 'aco', 'self', 'sself', 'local', 'super', 'fp', 'callout', 'scallout', 'cmd', 'reload', 'sco', 'coldsco', 'coldsco', 'saco', 'bindsuper', 'bindlocal'))
        lvl = rng.choice(fx.closure(ob))
        if deep and rng.random() < 0.08 and ob != 'r': kind = 'deep'
        if ob == 'r':
            # the helper functions of a program are gone once it has replaced itself: only plain calls, and helpers of its parents
            lvl = rng.choice(fx.closure(ob)[1:])
            if kind in ('self', 'sself', 'callout', 'scallout', 'cmd', 'bindsuper', 'bindlocal'): kind = rng.choice(('co', 'cco', 'sco', 'coldsco', 'local', 'super', 'fp'))
        if kind in ('aco', 'saco'):
            # array form of call_other (objects, or file names that the driver finds or loads): two to four targets, the interesting one not first
            others = [rng.choice(fx.names) for _ in range(rng.randint(1, 3))]
            out.append((kind, ob, ','.join(others + [ob] if rng.random() < 0.7 else [ob] + others), fn))
            continue
        if rng.random() < 0.2:
            # the same name through the compiled call and through the run-time lookup (agreement oracle)
            out.append(('local', ob, ob, fn)); out.append((rng.choice(('co', 'cco')), ob, ob, fn))
            continue
        out.append((kind, ob, lvl, fn))
    return out


DEEP_STACK, DEEP_HI, DEEP_LO = 200, 34, 8


def _cycles(call, idx, cold=False):
    kind, ob, lvl, fn = call
    tgt = '/c/' + ob
    if kind == 'deep':
        # history: the same call from ever less deep recursion (each its own evaluation; the deepest ones end in "stack overflow");
        # the call that is judged is the plain one afterwards.  As the first call of a fresh life it is made without that history.
        pre = [] if cold else [send(0, 'do xco %d /c/caller setn %d;xco %d /c/caller dp_%s %s\r\n' % (100000 + idx * 100 + n, n, 100000 + idx * 100 + n, fn, tgt)) for n in range(DEEP_HI, DEEP_LO, -1)]
        return pre + [send(0, 'do xco %d /c/caller co_%s %s\r\n' % (idx, fn, tgt))]
    if kind == 'co': return [send(0, 'do xco %d %s %s\r\n' % (idx, tgt, fn))]
    if kind == 'aco': return [send(0, 'do xaco %d %s %s\r\n' % (idx, fn, ' '.join('/c/' + x for x in lvl.split(','))))]
    if kind == 'saco': return [send(0, 'do xreload %s;xsaco %d %s %s\r\n' % (tgt, idx, fn, ' '.join('/c/' + x for x in lvl.split(','))))]
    if kind == 'sco': return [send(0, 'do xsco %d %s %s\r\n' % (idx, tgt, fn))]
    if kind == 'coldsco': return [send(0, 'do xreload %s;xsco %d %s %s\r\n' % (tgt, idx, tgt, fn))]     # the target is loaded by the call itself
    if kind == 'cco': return [send(0, 'do xco %d /c/caller co_%s %s\r\n' % (idx, fn, tgt))]
    if kind == 'sself': return [send(0, 'do xco %d %s sco_%s_%s\r\n' % (idx, tgt, ob, fn))]
    if kind == 'scallout': return [send(0, 'do xco %d %s sout_%s_%s\r\n' % (idx, tgt, ob, fn)), tick(), 'idle']
    if kind == 'self': return [send(0, 'do xco %d %s hco_%s %s\r\n' % (idx, tgt, ob, fn))]
    if kind == 'local': return [send(0, 'do xco %d %s local_%s %s\r\n' % (idx, tgt, lvl, fn))]
    if kind == 'super': return [send(0, 'do xco %d %s super_%s %s\r\n' % (idx, tgt, lvl, fn))]
    if kind == 'fp': return [send(0, 'do xco %d %s fp_%s %s\r\n' % (idx, tgt, lvl, fn))]
    if kind in ('bindsuper', 'bindlocal'): return [send(0, 'do xco %d /c/caller setn 0\r\n' % (200000 + idx)), send(0, 'do xco %d %s %s_%s %s\r\n' % (idx, tgt, 'bsup' if kind == 'bindsuper' else 'bloc', lvl, fn))]
    if kind == 'callout': return [send(0, 'do xco %d %s hcallout_%s %s\r\n' % (idx, tgt, ob, fn)), tick(), 'idle']
    if kind == 'cmd': return [send(0, 'do xco %d %s hcmd_%s %s\r\n' % (idx, tgt, ob, fn))]
    if kind == 'reload': return [send(0, 'do xreload %s;xco %d %s %s\r\n' % ('/c/' + lvl, idx, tgt, fn))]
    raise AssertionError(kind)


def _base_plan(fx):
    p = Plan()
    p.file('mcfg.h', mcfg({}))
    p.cfg('Port', '4000:telnet')
    p.cfg('MaxInheritDepth', 8)
    p.cfg('MaxEvaluationCost', 500000)
    for x in fx.names: p.file('c/%s.c' % x, fx.text(x))
    p.file('c/caller.c', CALLER)
    p.cycle(connect(0, 0))
    p.cycle(send(0, 'do name u0\r\n'))
    return p


def gen(rng, tier, i):
    fx = Fixture(rng)
    deep = rng.random() < 0.3
    calls = _calls(rng, fx, rng.randint(10, 25 if tier == 'quick' else 40), deep)
    p = _base_plan(fx)
    if deep:
        p.cfg('StackSize', DEEP_STACK); p.cfg('MaxCallDepth', 150)
    marks = []
    for k, c in enumerate(calls):
        cy = _cycles(c, k)
        marks.append(len(p.cycles))
        for s in cy: p.cycle(s)
    p.idle(1)
    p.meta['calls'] = [list(c) for c in calls]
    p.meta['fixture'] = {x: {'parents': [list(q) for q in fx.progs[x]['parents']], 'funcs': fx.progs[x]['funcs']} for x in fx.names}
    p.meta['names'] = fx.names
    return p


def has_fault(plan): return 'only' in plan.meta


def without_fault(plan):
    q = plan.copy(); q.meta = dict(plan.meta); q.meta.pop('only', None)
    return _rebuild(q, None)


def _rebuild(plan, only):
    """plan with the same fixture files; all calls (only=None) or just call number `only`"""
    q = Plan(); q.header = list(plan.header); q.meta = {k: v for k, v in plan.meta.items() if k != 'only'}
    q.cycle(connect(0, 0)); q.cycle(send(0, 'do name u0\r\n'))
    calls = plan.meta['calls']
    for k, c in enumerate(calls):
        if only is not None and k != only: continue
        for s in _cycles(tuple(c), k, cold=only is not None): q.cycle(s)
    q.idle(1)
    if only is not None: q.meta['only'] = only
    return q


def with_fault(plan, k):
    return _rebuild(plan, k)


def points(plan, res, tier, rng):
    return list(range(len(plan.meta['calls'])))


def _outcomes(res):
    """call index -> (result record, tuple of F records that belong to it)"""
    out = {}; cur = None
    for e in res.events:
        if e.kind != 'R': continue
        w = e.rest.split(' ')
        if w[0] == 'DO' and len(w) > 2 and ('xco' in w[2:] or 'xaco' in w[2:] or 'xsco' in w[2:] or 'xsaco' in w[2:] or 'xreload' in w[2]):
            m = re.search(r'xs?a?co (\d+) ', e.rest)
            cur = int(m.group(1)) if m else None
            if cur is not None: out[cur] = {'r': None, 'f': [], 'err': []}
        elif cur is not None and w[0] == 'F': out[cur]['f'].append(w[1])
        elif cur is not None and w[0] == 'XR': out[cur]['r'] = w[2] if len(w) > 2 else ''
        elif cur is not None and w[0] == 'ERR': out[cur]['err'].append(re.sub(r' trace=.*', '', e.rest)[:120])
    return out


def base_info(plan, res):
    return {'out': {str(k): v for k, v in _outcomes(res).items()}}


def _lookup(fxm, ob, fn):
    """most-derived definition along unambiguous paths: returns (prog, modifier) or None (undefined) or 'ambiguous'"""
    def find(x):
        if fn in fxm[x]['funcs']: return [(x, fxm[x]['funcs'][fn])]
        r = []
        for q, m in fxm[x]['parents']: r += find(q)
        return r
    r = find(ob)
    if not r: return None
    if len(r) > 1: return 'ambiguous'
    return r[0]


def _candidates(fxm, ob, fn):
    def find(x):
        if fn in fxm[x]['funcs']: return [(x, fxm[x]['funcs'][fn])]
        r = []
        for q, m in fxm[x]['parents']: r += find(q)
        return r
    return find(ob)


def _expect(fxm, call):
    """expected outcome where the rules are unambiguous, else None"""
    kind, ob, lvl, fn = call
    d = _lookup(fxm, ob, fn)
    if d == 'ambiguous':
        # several definitions reach the object and none redefines the name: whichever the driver picks, a call_other is
        # refused when every candidate is static, private or protected
        if kind in ('co', 'cco', 'self', 'sself', 'reload', 'sco', 'coldsco', 'deep') and all(m in ('static', 'private', 'protected') for _, m in _candidates(fxm, ob, fn)):
            return ('r', 'int:0', [])
        return None
    # inherit modifiers change visibility of inherited functions: leave those cases to the differential oracle
    def path_mods(x, target):
        if x == target: return []
        for q, m in fxm[x]['parents']:
            r = path_mods(q, target)
            if r is not None: return [m] + r
        return None
    if kind in ('aco', 'saco'):
        parts = []; fs = []
        for x in lvl.split(','):
            dx = _lookup(fxm, x, fn)
            if dx == 'ambiguous': return None
            if dx is None: parts.append('int:0'); continue
            prog, mod = dx
            if any(path_mods(x, prog) or []): return None
            tag = '%s.%s:%s' % (prog, fn, prog.upper())
            if mod in ('static', 'private', 'protected'): parts.append('int:0')
            else: parts.append(tag); fs.append(tag)
        return ('r', 'arr:' + ','.join(parts), fs)
    if kind in ('co', 'cco', 'self', 'sself', 'reload', 'sco', 'coldsco', 'deep'):
        if d is None: return ('r', 'int:0', [])
        prog, mod = d
        pm = path_mods(ob, prog) or []
        tag = '%s.%s:%s' % (prog, fn, prog.upper())
        if mod in ('static', 'private', 'protected'): return ('r', 'int:0', [])      # inherit modifiers only restrict further
        if any(pm): return None
        return ('r', tag, [tag])
    if kind in ('callout', 'scallout'):
        if d is None: return ('f', None, [])
        prog, mod = d
        pm = path_mods(ob, prog) or []
        if any(pm) or mod == 'private': return None
        return ('f', None, ['%s.%s:%s' % (prog, fn, prog.upper())])
    return None


def _selfbad(res):
    for e in res.events:
        if e.kind == 'R' and e.rest.startswith('SELFBAD '):
            return [Violation(PROP, 'caller', 'after a call_other the calling object /c/caller no longer finds its own variable or function (%s)' % e.rest, PROP + '/caller-frame/not-its-own-after-call')]
    return []


def check_base(plan, res):
    v = generic_crash_violations(PROP, res)
    if v: return v
    v += _selfbad(res)
    logerr = [e.rest for e in res.events if e.kind == 'R' and e.rest.startswith('LOGERR ') and 'Warning:' not in e.rest]
    if logerr:
        return [Violation(PROP, 'harness', 'a generated program does not compile: %s' % logerr[0][:200], PROP + '/harness/compile')]
    out = _outcomes(res)
    fxm = plan.meta['fixture']
    for k, c in enumerate(plan.meta['calls']):
        o = out.get(k)
        if o is None: continue
        exp = _expect(fxm, tuple(c))
        if exp is None: continue
        what, r, fs = exp
        if what == 'r' and (o['r'] != r or o['f'] != fs):
            vis = 'refused' if r == 'int:0' and _lookup(fxm, c[1], c[3]) else 'run'
            v.append(Violation(PROP, 'resolver', 'call %s returned %s and ran %s; the rules say %s running %s' % (c, o['r'], o['f'], r, fs), PROP + '/resolver/%s/%s' % (c[0], vis)))
        elif what == 'f' and o['f'] != fs:
            v.append(Violation(PROP, 'resolver', 'call %s ran %s; the rules say %s' % (c, o['f'], fs), PROP + '/resolver/%s/driver-origin' % c[0]))
    # functionals that call a local or inherited function must not be re-bound to another object
    for k, c in enumerate(plan.meta['calls']):
        o = out.get(k)
        if o is None or c[0] not in ('bindsuper', 'bindlocal'): continue
        if o['f'] or not ((o['r'] or '').startswith('err:') or o['r'] in ('nosuper', 'nolocal', 'int:0')):      # int:0 = the helper itself is not callable from outside (private inherit)
            v.append(Violation(PROP, 'bind', 'call %s: a functional calling %s function %s was bound to /c/caller and evaluated there: returned %s, ran %s' % (c, 'an inherited' if c[0] == 'bindsuper' else 'a local', c[3], o['r'], o['f']),
                               PROP + '/foreign-variables/' + c[0]))
    # the compiled (local) call in the object's own program and the run-time lookup by name must reach the same public function
    by = {}
    for k, c in enumerate(plan.meta['calls']):
        o = out.get(k)
        if o is None or not o['f']: continue
        kind, ob, lvl, fn = c
        if kind == 'local' and lvl == ob: by.setdefault((ob, fn), {})['local'] = (k, o['f'][0])
        elif kind in ('co', 'cco'): by.setdefault((ob, fn), {})['co'] = (k, o['f'][0])
    for (ob, fn), d in by.items():
        if 'local' in d and 'co' in d and d['local'][1] != d['co'][1]:
            v.append(Violation(PROP, 'agreement', '%s->%s(): the call compiled in /c/%s runs %s, call_other runs %s' % (ob, fn, ob, d['local'][1], d['co'][1]), PROP + '/agreement/local-vs-call_other'))
    seen = set(); r2 = []
    for x in v:
        if x.cls in seen: continue
        seen.add(x.cls); r2.append(x)
    return r2


def check_point(plan, res, info):
    v = generic_crash_violations(PROP, res)
    if v: return v
    v += _selfbad(res)
    k = plan.meta.get('only')
    if k is None: return v
    cold = _outcomes(res).get(k)
    warm = info['out'].get(str(k))
    if cold is None or warm is None: return v
    c = plan.meta['calls'][k]
    if cold['r'] != warm['r'] or cold['f'] != warm['f']:
        v.append(Violation(PROP, 'history', 'call %s: as the first call of a fresh driver it returns %s and runs %s; after the history before it, it returned %s and ran %s' % (c, cold['r'], cold['f'], warm['r'], warm['f']),
                           PROP + '/history-dependent/' + c[0]))
    return v


def summarize_point(plan, res, info):
    k = plan.meta.get('only')
    o = _outcomes(res).get(k) if k is not None else None
    if o is None: return {'nontrivial': False, 'abstract': 'none'}
    c = plan.meta['calls'][k]
    d = _lookup(plan.meta['fixture'], c[1], c[3])
    depth = 'undef' if d is None else ('amb' if d == 'ambiguous' else '%s:%s' % (d[1] or 'plain', 'own' if d[0] == c[1] else 'inh'))
    return {'nontrivial': bool(o['f']) or o['r'] == 'int:0', 'abstract': '%s|%s|%s|%s' % (c[0], depth, 'ran' if o['f'] else 'not', 'err' if (o['r'] or '').startswith('err') else 'ok'),
            'probes': {'refused_by_visibility': 1 if (o['r'] == 'int:0' and d not in (None, 'ambiguous')) else 0, 'ran': 1 if o['f'] else 0,
                       'errors': 1 if (o['r'] or '').startswith('err') else 0, 'reloads': 1 if c[0] == 'reload' else 0}}
