# C13 - input framing ignores packet boundaries and survives any byte stream.
# Engine W-loop: real get_user_data()/copy_chars()/telnet_neg()/command extraction under scripted recv() segmentation.
import re, hashlib
from ..core import Plan, Violation, generic_crash_violations, spin_violations, enc, dec
from ..world import *

PROP = 'C13'
LEVEL = 'exploration'
RULE = ('one evaluation = one driver life in which 2-3 clients send the SAME logical byte stream under different segmentations into '
        'recv() results (all at once, one byte per read, random cuts), interleaved with ticks; classes: strict (expected lines computed '
        'from logical items: text, CR LF / CR NUL, backspace/delete, IAC commands, sub-negotiations), differential (adds lone CR, bare LF, '
        'NUL, 8-bit data: only equality across segmentations), burst (many short lines at once), hostile (over-long lines, unterminated SB, '
        'floods of IAC: only safety and bounded buffering); telnet, ASCII and binary ports and the console. non-trivial = at least one recv '
        'returned fewer bytes than asked inside a line or negotiation; distinct = distinct (class, port kind, item-kind sequence, cut pattern hash).')
RULE += (' Later additions: an over-long line with nothing but line ends waiting behind it; console chunks up to 4095 bytes.')
COMPONENTS = {'real': ['src/comm.c get_user_data/copy_chars/telnet_neg/first_cmd_in_buf/next_cmd_in_buf/add_console_line/process_user_command', 'src/backend.c'],
              'stub': ['kernel recv()/epoll (simulated, explicit segmentation)', 'console worker thread (plan console steps through the real queue + completion post)']}
ASSUMPTIONS = ['strict expectations mirror docs: CR LF / CR NUL end a line, BS/DEL delete the previous character of the line, telnet negotiation is removed',
               'whether an empty line is a command is left open: strict streams contain no empty lines']
MAX_TEXT = 2048
IAC, SB, SE = 255, 250, 240
WILL, WONT, DO, DONT = 251, 252, 253, 254
TEXTCH = 'abcdefghijklmnopqrstuvwxyzABCDEFGHIJKLMNOPQRSTUVWXYZ0123456789 .,;:-_+*/=()[]{}<>?@#$&'


def gen_items(rng, cls, kind, budget):
    """list of (itemkind, bytes).  Returns items; strict expected lines are computed by expected_lines()."""
    items = []
    nlines = 0
    size = 0
    ln = 0
    while size < budget:
        # one line
        nlines += 1
        head = 'L%d:' % nlines
        items.append(('text', head.encode())); size += len(head)
        nparts = rng.randint(1, 4)
        net = len(head)
        for _ in range(nparts):
            r = rng.random()
            if r < 0.55 or kind != 'telnet':
                t = ''.join(rng.choice(TEXTCH) for _ in range(rng.randint(1, 12 if cls != 'burst' else 4)))
                items.append(('text', t.encode())); net += len(t)
            elif r < 0.70:
                n = rng.randint(1, 3)
                if net - n >= len(head) + 0:
                    items.append(('edit', bytes(rng.choice((8, 127)) for _ in range(n)))); net -= n
            elif r < 0.85:
                c = rng.choice((WILL, WONT, DO, DONT))
                items.append(('neg', bytes((IAC, c, rng.choice((1, 3, 24, 31, 34, 6, 99))))))
            elif r < 0.92:
                # two-byte telnet commands (NOP, DM, GA, EL, EC and BREAK, IP, AO, AYT which the driver answers): removed from the text
                items.append(('cmd', bytes((IAC, rng.choice((241, 242, 243, 244, 245, 246, 247, 248, 249))))))
            else:
                opt = rng.choice((24, 31, 34, 99))
                if opt == 24: body = bytes((24, 0)) + b'vt' + bytes(rng.choice(b'0123456789') for _ in range(rng.randint(0, 6)))
                elif opt == 31: body = bytes((31, rng.randint(0, 254), rng.randint(0, 254), rng.randint(0, 254), rng.randint(0, 254)))
                elif opt == 34: body = bytes((34, rng.choice((1, 3)))) + bytes(rng.randint(0, 120) for _ in range(rng.choice((1, 3, 6, 9))))
                else: body = bytes((99,)) + bytes(rng.randint(1, 254) for _ in range(rng.choice((0, 1, 5, 99, 100, 101, 150))))
                if rng.random() < 0.25:     # too short for its option
                    body = rng.choice((bytes((24,)), bytes((24, 0)), bytes((24, 1)) + b'xy', bytes((31,)), bytes((31, 5)), bytes((31, 1, 2, 3)), b'', bytes((34,)), bytes((34, 3))))
                body = body.replace(b'\xff', b'\xfe')
                if rng.random() < 0.3:
                    # a quoted IAC inside the data, and behind it bytes that would mean something if the decoder had lost its place
                    # (SE without IAC, text): all of it still belongs to the sub-negotiation
                    body += bytes((IAC, IAC)) + rng.choice((b'', b'', bytes((SE,)), bytes((SE,)) + b'leak', b'zz', bytes((SB,)), bytes((SE, 13, 10))))
                items.append(('sb', bytes((IAC, SB)) + body + bytes((IAC, SE))))
        if cls == 'differential' and kind == 'telnet' and rng.random() < 0.5:
            items.append(('odd', rng.choice((b'\r', b'\n', b'\0', b'\xe9', bytes((IAC, IAC)), b'\rX', b'\t', b'\x1b[A'))))
        if cls in ('strict', 'burst') and rng.random() < 0.04:
            items.append(('text', b'PIBOOM')); net += 6          # process_input() raises an error on this line; the lines behind it are lines all the same
        if kind == 'telnet':
            items.append(('nl', rng.choice((b'\r\n', b'\r\n', b'\r\0'))))
        elif kind == 'ascii':
            items.append(('nl', b'\n'))
        else:
            items.append(('nl', rng.choice((b'\n', b'\0', b'\xff\xff'))))
        size = sum(len(b) for _, b in items)
    return items


def expected_lines(items):
    lines = []; cur = bytearray()
    for k, b in items:
        if k == 'text': cur += b
        elif k == 'edit':
            for _ in b:
                if cur: cur.pop()
        elif k == 'nl':
            if cur: lines.append(bytes(cur).decode('latin-1'))
            cur = bytearray()
    return lines


def cstr(b):
    return b.split(b'\0', 1)[0]


def expected_negs(items):
    """what the user object is told about sub-negotiations: a list of alternatives per sub-negotiation (None = no callback).
    Only the bytes of that sub-negotiation may show up: a missing byte is read as 0 or the callback is skipped."""
    out = []
    for k, b in items:
        if k != 'sb': continue
        body = b[2:-2].replace(b'\xff\xff', b'\xff')[:99]
        if not body:
            out.append([None, 'SUBOPT -']); continue
        o = body[0]
        if o == 24:
            if len(body) >= 2 and body[1] == 0: out.append(['TT -' + cstr(body[2:]).hex()])
            elif len(body) >= 2: out.append([None])
            else: out.append([None, 'TT -'])
        elif o == 31:
            pad = (body + bytes(5))[:5]
            w = 'WS %d %d' % (pad[1] * 256 + pad[2], pad[3] * 256 + pad[4])
            out.append([w] if len(body) >= 5 else [None, w])
        elif o == 34:
            out.append([None])
        else:
            out.append(['SUBOPT -' + cstr(body).hex()])
    return out


def gen(rng, tier, i):
    p = Plan()
    r = rng.random()
    kind = 'telnet' if r < 0.55 else 'ascii' if r < 0.8 else 'binary' if r < 0.9 else 'console'
    cls = rng.choice(('strict', 'strict', 'differential', 'burst', 'hostile')) if kind == 'telnet' else rng.choice(('strict', 'strict', 'burst', 'hostile'))
    if kind in ('binary', 'console') and cls == 'burst': cls = 'strict'
    defs = {'USER_PROCESS_INPUT': '1'}
    p.file('mcfg.h', mcfg(defs))
    p.opt('epoll_seed', rng.randint(1, 1 << 30))
    p.opt('dump_users', 1)
    p.meta.update({'class': cls, 'kind': kind})
    p.opt('c13_class', cls); p.opt('c13_kind', kind)
    if kind == 'console':
        p.opt('console', 1)
        # (the console worker hands over what one read() returned, up to 4095 bytes: a paste or a piped file arrives as a few large chunks)
        items = gen_items(rng, 'strict', 'ascii', rng.choice((40, 200, 500, 500, 2500, 3900, 9000)))
        stream = b''.join(b for _, b in items)
        # each console step is one read() result of the worker: cut the stream at random places (never two in one cycle)
        pos = 0
        while pos < len(stream):
            n = min(4095, rng.choice((1, 2, 5, 17, 60, 700, 2047, 2048, 4095, len(stream))) if len(stream) > 600 else rng.choice((1, 2, 5, 17, 60, len(stream))))
            p.cycle(console(stream[pos:pos + n])); pos += n
            if rng.random() < 0.3: p.cycle(tick())
        p.idle(len(items) + 8)
        p.opt('c13_stream', stream.hex())
        p.meta['no_shrink'] = True      # one buffered command is served per cycle: without the idle cycles nothing can be delivered
        return p
    p.cfg('Port', '4000:' + kind)
    if cls == 'hostile':
        r = rng.random()
        if r < 0.12: stream = b'X' * rng.choice((2040, 2047, 2048, 2049, 5000)) + b'\r\n' + b'ok\r\n'
        # an over-long line, and waiting behind it nothing but line ends (each of which the decoder writes as more bytes than it read)
        elif r < 0.25: stream = b'X' * rng.choice((1500, 1665, 1700, 1921, 2000, 2047)) + rng.choice((b'\r\n', b'\r\0', b'\r\n\r\0')) * rng.choice((400, 700, 1000, 1400)) + b'ok\r\n'
        elif r < 0.45: stream = bytes((IAC, SB, 24, 0)) + b'A' * rng.choice((99, 100, 101, 5000))
        elif r < 0.6: stream = b'\xff' * rng.choice((1000, 7000))
        elif r < 0.75: stream = bytes(rng.randint(0, 255) for _ in range(rng.choice((500, 3000, 9000))))
        elif r < 0.9: stream = (b'a\r\n') * rng.choice((700, 1500))
        else: stream = bytes((IAC, SB)) + bytes((IAC, IAC)) * 300 + bytes((IAC, SE)) + b'ok\r\n'
        items = [('raw', stream)]
    else:
        budget = rng.choice((30, 120, 400, 600)) if cls != 'burst' else rng.choice((1500, 3000, 6000))
        items = gen_items(rng, cls, kind, budget)
        stream = b''.join(b for _, b in items)
    nclients = rng.randint(2, 3)
    segsets = []
    for c in range(nclients):
        m = rng.choice(('all', 'one', 'rand', 'rand')) if c else rng.choice(('all', 'rand'))
        if cls == 'burst': m = rng.choice(('all', 'big'))
        if m == 'all': segs = []
        elif m == 'one': segs = [1] * len(stream)
        elif m == 'big': segs = [rng.choice((200, 500, 682, 1000)) for _ in range(len(stream) // 200 + 1)]
        else: segs = rand_segs(rng, len(stream))
        if m == 'one' and len(stream) > 700: segs = rand_segs(rng, len(stream))
        segsets.append(segs)
    for c in range(nclients):
        p.cycle(connect(0, c))
    p.idle(1)
    # (some of the reads are interrupted before they copy a byte: EINTR is no end of the connection and no byte is lost)
    p.cycle(*(['recvintr %d %d' % (c, rng.randint(1, 3)) for c in range(nclients) if rng.random() < 0.15] + [send(c, stream, segsets[c]) for c in range(nclients)]))
    need = max(len(s) for s in segsets) + len(stream) // 3 + 20
    need = min(need, 4000)
    k = 0
    while k < need:
        if rng.random() < 0.05: p.cycle(tick())
        else: p.cycle('idle')
        k += 1
    p.opt('c13_stream', stream.hex())
    if cls in ('strict', 'burst'):
        p.opt('c13_expect', '\n'.join(expected_lines(items)).encode('latin-1').hex())
    if cls in ('strict', 'burst', 'differential') and kind == 'telnet':
        p.opt('c13_negs', ';'.join('|'.join('0' if a is None else a.replace(' ', '_') for a in alts) for alts in expected_negs(items)) or '.')
    return p


def check(plan, res):
    v = generic_crash_violations(PROP, res)
    if v: return v
    v += spin_violations(PROP, res)
    o = plan.opts()
    cls = o.get('c13_class', 'strict'); kind = o.get('c13_kind', 'telnet')
    # bounded buffering
    for e in res.of('user'):
        kv = e.kv()
        if int(kv['text_end']) > MAX_TEXT - 1 or int(kv['text_start']) > int(kv['text_end']) or int(kv['text_start']) < 0:
            v.append(Violation(PROP, 'buffer', 'input buffer indices out of bounds: %s' % e.rest[:80], PROP + '/buffer/out-of-bounds'))
            return v
    # delivered lines per connection
    alias = {}; last_accept = None
    lines = {}; bins = {}; negs = {}
    for e in res.events:
        if e.kind == 'accept': last_accept = int(e.kv()['conn'])
        elif e.kind == 'R':
            w = e.rest.split(' ', 2)
            if w[0] == 'CONNECT':
                ww = e.rest.split(' ')
                if ww[1] == '0': alias[ww[2]] = 'con'
                elif last_accept is not None: alias[ww[2]] = last_accept; last_accept = None
            elif w[0] == 'PI' and w[1] in alias:
                lines.setdefault(alias[w[1]], []).append(w[2] if len(w) > 2 else '')
            elif w[0] in ('TT', 'WS', 'SUBOPT') and w[1] in alias:
                negs.setdefault(alias[w[1]], []).append(w[0] + ' ' + (w[2] if len(w) > 2 else ''))
            elif w[0] == 'PIB' and w[1] in alias:
                bins.setdefault(alias[w[1]], bytearray()).extend(bytes.fromhex(w[2]) if len(w) > 2 else b'')
    stream = bytes.fromhex(o.get('c13_stream', ''))
    conns = sorted(set(int(a[1]) for ci, cyc in enumerate(plan.cycles) for st in cyc for op, a in [parse_step(st)] if op == 'connect'))
    sent_to = {}
    for cyc in plan.cycles:
        for st in cyc:
            op, a = parse_step(st)
            if op == 'send': sent_to[int(a[0])] = sent_to.get(int(a[0]), b'') + dec(a[1])
    if kind == 'console':
        sent = b''.join(dec(parse_step(st)[1][0]) for cyc in plan.cycles for st in cyc if parse_step(st)[0] == 'console')
        exp = [l.decode('latin-1') for l in re.split(rb'[\r\n]', sent)[:-1] if l]
        got = lines.get('con', [])
        # the tail after the last newline is an incomplete line and must not be delivered
        if got != exp:
            v.append(Violation(PROP, 'console', 'console lines delivered %r differ from lines typed %r' % (got[:6], exp[:6]), PROP + '/console/lines-differ'))
        return v
    if cls == 'hostile':
        return v     # safety and bounded buffering only
    if kind == 'binary':
        for c in conns:
            if c in sent_to and bytes(bins.get(c, b'')) != sent_to[c]:
                v.append(Violation(PROP, 'binary', 'binary port: concatenated buffers (%d bytes) differ from bytes sent (%d bytes) on conn %d' % (len(bins.get(c, b'')), len(sent_to[c]), c),
                                   PROP + '/binary/bytes-differ'))
        return v
    # every connection that was sent the full stream and had time to drain
    # ... i.e. nothing left in the socket queue and no complete command left in its input buffer
    drained = set()
    pend = {int(e.kv()['conn']): int(e.kv()['pending']) for e in res.of('connq')}
    for e in res.of('user'):
        kv = e.kv()
        if kv.get('when') == 'final' and not (int(kv['iflags'], 16) & 0x80) and pend.get(int(kv['conn']), 1) == 0:
            drained.add(int(kv['conn']))
    full = [c for c in conns if sent_to.get(c) == stream and c in drained]
    for c in full:
        for l in lines.get(c, []):
            if '\xff' in l and cls == 'strict' or any(ord(ch) in (250, 240, 251, 252, 253, 254) for ch in l) and cls == 'strict':
                v.append(Violation(PROP, 'leak', 'telnet negotiation byte inside delivered command text on conn %d: %r' % (c, l[:40]), PROP + '/telnet/negotiation-leaks-into-text'))
    if cls in ('strict', 'burst') and 'c13_expect' in o:
        exp = bytes.fromhex(o['c13_expect']).decode('latin-1').split('\n') if o['c13_expect'] else []
        for c in full:
            got = lines.get(c, [])
            if got != exp:
                # first difference
                k = 0
                while k < min(len(got), len(exp)) and got[k] == exp[k]: k += 1
                what = 'line %d: got %r expected %r' % (k, got[k] if k < len(got) else None, exp[k] if k < len(exp) else None)
                sub = 'burst' if cls == 'burst' else kind
                v.append(Violation(PROP, 'strict', 'conn %d (%s port, %s class) delivered %d lines, expected %d; %s' % (c, kind, cls, len(got), len(exp), what),
                                   PROP + '/lines/%s/differ-from-expected' % sub))
                break
    if 'c13_negs' in o and kind == 'telnet':
        exp = [] if o['c13_negs'] == '.' else [[None if a == '0' else a.replace('_', ' ') for a in alts.split('|')] for alts in o['c13_negs'].split(';')]
        for c in full:
            got = negs.get(c, [])
            # align: each expected sub-negotiation yields one of its alternatives (reach[j] = expectations so far can explain got[:j])
            reach = {0}; bad = None
            for alts in exp:
                nxt = set()
                for j in reach:
                    if None in alts: nxt.add(j)
                    if j < len(got) and got[j] in alts: nxt.add(j + 1)
                if not nxt:
                    j = max(reach)
                    bad = 'sub-negotiation callback %r, expected one of %r' % (got[j] if j < len(got) else None, alts); break
                reach = nxt
            if bad is None and len(got) not in reach: bad = 'unexpected sub-negotiation callback %r' % got[max(reach)]
            if bad:
                v.append(Violation(PROP, 'subneg', 'conn %d: %s (only the bytes of that sub-negotiation may be reported)' % (c, bad), PROP + '/telnet/subnegotiation-callback-wrong'))
                break
    if len(full) >= 2:
        for c in full[1:]:
            if negs.get(c, []) != negs.get(full[0], []):
                v.append(Violation(PROP, 'differential', 'same bytes, different segmentation: sub-negotiation callbacks differ between conn %d and conn %d' % (full[0], c),
                                   PROP + '/telnet/subnegotiation-depends-on-segmentation'))
                break
    if len(full) >= 2:
        ref = lines.get(full[0], [])
        for c in full[1:]:
            if lines.get(c, []) != ref:
                sub = 'burst' if cls == 'burst' else kind
                v.append(Violation(PROP, 'differential', 'same bytes, different segmentation: conn %d got %d lines, conn %d got %d lines' % (full[0], len(ref), c, len(lines.get(c, []))),
                                   PROP + '/lines/%s/depend-on-segmentation' % sub))
                break
    return v


def summarize(plan, res):
    o = plan.opts()
    st = res.stats()
    cuts = []
    for e in res.events:
        if e.kind == 'recv' and ' n=' in e.rest:
            kv = e.kv(); cuts.append(kv['n'])
    key = '%s %s %s' % (o.get('c13_class'), o.get('c13_kind'), hashlib.sha256((o.get('c13_stream', '')[:400] + ' '.join(cuts[:200])).encode()).hexdigest()[:12])
    return {'nontrivial': st.get('recv_short', 0) > 2 or o.get('c13_kind') == 'console', 'abstract': key,
            'probes': {'class_' + o.get('c13_class', '?'): 1, 'kind_' + o.get('c13_kind', '?'): 1}}
