# C18 - runtime errors are reported at the right file and line with a correct trace.
# Engine W-sweep: a generated program layout (main file, includes at several nesting depths, inherited programs, another object,
# function literals, statements of more than 255 bytes of code, multi-line statements, padding) is executed once fault-free; then
# one run per executed instruction k of the generated programs injects an LPC error exactly there.  The generator's own abstract
# interpreter (it knows where it put every statement) says which statement can be executing between two consecutive markers.
import re, hashlib
from ..core import Plan, Violation, generic_crash_violations
from ..world import *

PROP = 'C18'
LEVEL = 'fault_enumeration'
RULE = ('scenario = seeded program layout: up to four programs (main, two inherited levels, a second object), functions placed in the '
        '.c files or in headers included at nesting depth 1-3 (at the top, in the middle, at the end of a file, inside a function body), '
        'padding of blank/comment/#define lines (thorough: enough lines to cross 65535), statements spanning several lines, statements '
        'of more than 255 bytes of code, for/while/if nests, local, inherited, overridden (::) and call_other calls, catch, function '
        'literals and anonymous functions evaluated later. Every statement starts with a marker call. Fault-free run, then one run per '
        'instruction k executed by the generated programs with an error injected exactly at k (all k up to the cap, else a seeded sample). '
        'Oracle: the file, line and trace given to master::error_handler must be those of a statement that can be executing between the '
        'last marker seen and the next one, per the generator\'s abstract interpreter; each outer trace frame must sit on its call statement. '
        'non-trivial = the fault fired; distinct = distinct (scenario, file kind, frame-chain shape).')
RULE += (' Later additions: failing initialisers of global variables; headers with include guards that include each other or themselves, with failing statements behind the #include.')
COMPONENTS = {'real': ['lib/lpc/lex.c', 'lib/lpc/grammar.y', 'lib/lpc/compiler.c (line number table, save_file_info, switch_to_line)', 'lib/lpc/program.c find_line',
                       'src/error_context.c', 'src/simulate.c get_svalue_trace', 'src/interpret.c', 'src/apply.c', 'src/backend.c + comm.c (the command arrives over the simulated socket)'],
              'stub': ['kernel sockets/clock/timer (simulated)', 'file layer pass-through'],
              'hook': ['per-instruction callback in eval_instruction (NEOLITH_VERIF) raises error() at instruction k of programs named g/*']}
ASSUMPTIONS = ['an instruction between two markers belongs to the statement of the earlier marker, to the statement of the later one, or to a statement being resumed in between (call return, loop back-edge, end of an if); any of those lines is accepted',
               'for a statement spanning several lines any of its lines is accepted; a loop or if statement spans from its header to its closing brace (the driver attributes loop conditions to the closing line)',
               'programs loaded from saved binaries are not covered (see C17)']

INJECT = '*verif injected fault'


# ------------------------------------------------------------------ program model
class Boom(Exception):
    pass


class Stmt:
    def __init__(self, kind, **kw):
        self.kind = kind; self.mid = None; self.file = None; self.lo = self.hi = 0; self.end = 0; self.multi = False
        self.__dict__.update(kw)


class Func:
    def __init__(self, name, prog):
        self.name = name; self.prog = prog; self.body = []; self.file = None


class Emitter:
    """text of one file plus the line bookkeeping"""
    def __init__(self, name):
        self.name = name; self.lines = []
    @property
    def line(self): return len(self.lines) + 1      # number of the next line
    def put(self, text): self.lines.append(text); return len(self.lines)
    def text(self): return '\n'.join(self.lines) + '\n'


class World:
    def __init__(self, rng, tier):
        self.rng = rng; self.tier = tier
        self.next_mid = 0; self.files = {}; self.nh = 0
        self.funcs = {}         # (prog, name) -> Func
        self.order = {}         # prog -> [Func]
        self.frags = {}         # prog -> shared fragment header (a run of simple statements included in several places)
        self.inherit = {}       # prog -> parent prog or None
        self.fpvars = {}        # prog -> count of function variables
        self.big_pad = False
        self.nboom = 0

    def mid(self):
        self.next_mid += 1; return self.next_mid

    # ---- generation of bodies
    def callees(self, f):
        """functions f may call (acyclic by construction): returns list of (expr kind, target Func, dispatch prog)"""
        out = []
        progs = self.chain(f.prog)           # f.prog and its ancestors
        for p in progs:
            for g in self.order.get(p, []):
                if g.name in ('main', 'warm'): continue
                if self.rank(g) > self.rank(f): out.append(('local', g))
        if f.prog != 'o' and 'o' in self.order:
            for g in self.order['o']:
                if g.name != 'warm': out.append(('other', g))
        return out

    def rank(self, f):
        # call order: main < m funcs < p funcs < q funcs ; o funcs among themselves
        base = {'m': 0, 'p': 100, 'q': 200, 'o': 300}[f.prog]
        return base + self.order[f.prog].index(f)

    def chain(self, prog):
        out = [prog]
        while self.inherit.get(out[-1]): out.append(self.inherit[out[-1]])
        return out

    def gen_body(self, f, depth, budget):
        rng = self.rng
        body = []
        n = rng.randint(1, 4 if depth == 0 else 2)
        for _ in range(n):
            if budget[0] <= 0: break
            budget[0] -= 1
            r = rng.random()
            cal = self.callees(f)
            if rng.random() < 0.07 and self.nboom < 2:
                self.nboom += 1
                body.append(Stmt('boom', how=rng.choice(('div', 'error', 'index', 'undef')), multi=rng.random() < 0.3))
            elif r < 0.05:
                # a fragment header shared by several places of the same program: the second inclusion starts at line 1 again
                fr = self.frags.setdefault(f.prog, {'body': [Stmt('simple', multi=rng.random() < 0.3) for _ in range(rng.randint(1, 3))], 'header': None})
                body.append(Stmt('frag', frag=fr))
            elif r < 0.28 or (not cal and r < 0.55):
                body.append(Stmt('simple', multi=rng.random() < 0.3))
            elif r < 0.36:
                m_ = rng.random() < 0.4
                body.append(Stmt('long', n=rng.randint(130, 400 if m_ else 190), multi=m_))
            elif r < 0.62 and cal:
                how, g = rng.choice(cal)
                body.append(Stmt('call', how=how, target=g, multi=rng.random() < 0.25, via=rng.choice(('direct', 'direct', 'co_this')) if how == 'local' else 'other'))
            elif r < 0.70 and cal:
                how, g = rng.choice(cal)
                body.append(Stmt('catch', how=how, target=g, multi=False, via='direct' if how == 'local' else 'other'))
            elif r < 0.80 and depth < 2:
                body.append(Stmt('for', n=rng.randint(0, 2), body=self.gen_body(f, depth + 1, budget), var='ijk'[depth], loop=rng.choice(('for', 'while'))))
            elif r < 0.84 and depth < 2:
                labels = rng.sample(['alpha', 'beta', 'gamma', 'delta', 'omega', 'kappa', 'sigma', 'zeta'], rng.randint(3, 6))
                dflt = rng.random() < 0.6
                pick = rng.randint(0, len(labels) - (0 if dflt else 1))      # index len(labels) = a value no case names -> default
                body.append(Stmt('sswitch', labels=labels, dflt=dflt, pick=pick, cases=[[Stmt('simple', multi=False)] for _ in range(len(labels) + (1 if dflt else 0))]))
            elif r < 0.90 and depth < 2:
                body.append(Stmt('if', cond=rng.random() < 0.5, then=self.gen_body(f, depth + 1, budget), els=self.gen_body(f, depth + 1, budget) if rng.random() < 0.6 else None))
            elif depth == 0:
                k = self.fpvars.get(f.prog, 0); self.fpvars[f.prog] = k + 1
                if rng.random() < 0.5:
                    body.append(Stmt('litdef', var='fp%d' % k, lit=Stmt('lit'), multi=rng.random() < 0.3))
                else:
                    body.append(Stmt('anondef', var='fp%d' % k, body=[Stmt('simple', multi=False) for _ in range(rng.randint(1, 2))], ret=Stmt('ret')))
                if rng.random() < 0.5: body.append(Stmt('simple', multi=False))
                body.append(Stmt('eval', var='fp%d' % k, defstmt=body[-1] if body[-1].kind in ('litdef', 'anondef') else body[-2], multi=False))
            else:
                body.append(Stmt('simple', multi=False))
        if not body: body.append(Stmt('simple', multi=False))
        return body

    # ---- text
    def pad(self, em, lo=0, hi=3):
        rng = self.rng
        for _ in range(rng.randint(lo, hi)):
            r = rng.random()
            if r < 0.4: em.put('')
            elif r < 0.7: em.put('// pad %d' % rng.randint(0, 999))
            elif r < 0.8: em.put('/* block'); em.put('   comment */')
            elif r < 0.9: em.put('#define PAD_%s_%d_%d %d' % (re.sub(r'[^a-z0-9]', '', em.name), len(em.lines), rng.randint(0, 99), rng.randint(0, 9)))
            else: em.put('#if 0'); em.put('this text is skipped'); em.put('#endif')

    def put_tokens(self, em, toks, multi, ind):
        """emit tokens as one statement; returns (lo, hi)"""
        rng = self.rng
        lo = em.line
        cur = ind
        for t in toks:
            # (a line break directly after an opening parenthesis is its own lexer path: likelier than elsewhere)
            if multi and cur.strip() and rng.random() < (0.7 if cur.rstrip().endswith('(') else 0.35):
                em.put(cur); cur = ind + '    '
                if rng.random() < 0.2: em.put(ind + '    // inside a statement')
            cur += t + ' '
        em.put(cur.rstrip())
        return lo, em.line - 1

    def gvar(self, prog): return 'g' + prog

    def callexpr(self, f, s):
        g = s.target
        if s.via == 'other': return '"/g/o"->%s()' % g.name
        if s.via == 'co_this': return 'call_other(this_object(), "%s")' % g.name
        if getattr(s, 'super_call', False): return '::%s()' % g.name
        return '%s()' % g.name

    def emit_stmt(self, em, f, s, ind):
        rng = self.rng
        gv = self.gvar(f.prog)
        s.file = em.name
        if s.kind in ('simple', 'long', 'call', 'catch', 'litdef', 'eval', 'ret', 'lit', 'boom'):
            s.mid = self.mid()
            toks = ['M(%d);' % s.mid]
            if s.kind == 'simple':
                # sometimes with parentheses, so that a multi-line statement can break right after a "("
                toks += [gv, '=', gv, '+', '1', ';'] if rng.random() < 0.6 else [gv, '=', '(', gv, '+', '(', '1', ')', ')', ';']
            elif s.kind == 'long': toks += ['ga', '=', '({'] + [('%d,' % (i % 97)) for i in range(s.n)] + ['});']
            elif s.kind == 'boom':
                toks += {'div': [gv, '=', gv, '/', 'zero', ';'], 'error': ['error(', '"boom\\n"', ');'], 'index': ['ga', '=', '({', '1', '})', '[', 'zero', '+', '3', ']', ';'], 'undef': [gv, '=', gv, '+', 'ga', '[', '100000', ']', ';'],
                         'divlast': ['zero', '/', 'zero', ';'], 'typeerr': [gv, '=', gv, '+', 'sizeof(', 'zero', ')', ';']}[s.how]
            elif s.kind == 'call': toks += [gv, '=', gv, '+', self.callexpr(f, s), ';']
            elif s.kind == 'catch': toks += ['e', '=', 'catch(', self.callexpr(f, s), ');']
            elif s.kind == 'litdef':
                s.lit.mid = self.mid()
                toks += [s.var, '=', '(:', 'M(%d)' % s.lit.mid, '+', '1', ':)', ';']
            elif s.kind == 'eval': toks += [gv, '=', gv, '+', 'evaluate(%s)' % s.var if s.defstmt.kind == 'litdef' else 'evaluate(%s, 1)' % s.var, ';']
            elif s.kind == 'ret': toks += ['return', getattr(s, 'expr', gv), ';']
            if s.kind == 'long' and not s.multi:
                s.lo = s.hi = em.put(ind + ' '.join(toks))
            else:
                s.lo, s.hi = self.put_tokens(em, toks, s.multi, ind)
            if s.kind == 'litdef': s.lit.file, s.lit.lo, s.lit.hi = s.file, s.lo, s.hi
            s.end = s.hi
        elif s.kind == 'for':
            s.mid = self.mid()
            v = s.var
            if s.loop == 'for':
                s.lo = s.hi = em.put('%sM(%d); for (%s = 0; %s < %d; %s++) {' % (ind, s.mid, v, v, s.n, v))
                self.emit_body(em, f, s.body, ind + '  ')
            else:
                s.lo = s.hi = em.put('%sM(%d); %s = 0; while (%s < %d) {' % (ind, s.mid, v, v, s.n))
                self.emit_body(em, f, s.body, ind + '  ')
                s.inc = Stmt('inc'); s.inc.file = em.name; s.inc.mid = self.mid()
                s.inc.lo = s.inc.hi = em.put('%s  M(%d); %s++;' % (ind, s.inc.mid, v))
            s.end = em.put(ind + '}')
        elif s.kind == 'if':
            s.mid = self.mid()
            s.lo = s.hi = em.put('%sM(%d); if (%s %s 0) {' % (ind, s.mid, gv, '>=' if s.cond else '<'))
            self.emit_body(em, f, s.then, ind + '  ')
            if s.els is not None:
                em.put(ind + '} else {')
                self.emit_body(em, f, s.els, ind + '  ')
            s.end = em.put(ind + '}')
        elif s.kind == 'sswitch':
            s.mid = self.mid()
            val = s.labels[s.pick] if s.pick < len(s.labels) else 'nomatch'
            s.lo = s.hi = em.put('%sM(%d); sk = "%s"; switch (sk) {' % (ind, s.mid, val))
            for ci, lab in enumerate(s.labels):
                em.put('%s  case "%s":' % (ind, lab))
                self.emit_body(em, f, s.cases[ci], ind + '    ')
                em.put('%s    break;' % ind)
            if s.dflt:
                em.put('%s  default:' % ind)
                self.emit_body(em, f, s.cases[len(s.labels)], ind + '    ')
            s.end = em.put(ind + '}')
        elif s.kind == 'anondef':
            s.mid = self.mid()
            s.lo = em.put('%sM(%d); %s = function(int a) {' % (ind, s.mid, s.var))
            self.emit_body(em, f, s.body, ind + '    ')
            s.ret.expr = 'a'
            self.emit_stmt(em, f, s.ret, ind + '    ')
            s.hi = s.end = em.put(ind + '};')
        elif s.kind == 'frag':
            fr = s.frag
            if fr['header'] is None:
                h = self.new_header(); fr['header'] = h
                self.pad(h, 0, 3)
                for t in fr['body']:
                    self.emit_stmt(h, f, t, ind)
                    if rng.random() < 0.4: self.pad(h, 0, 2)
            s.lo = s.hi = s.end = em.put('#include "/%s"' % fr['header'].name)
        else:
            raise AssertionError(s.kind)

    def emit_body(self, em, f, body, ind):
        """emit statements; a run of statements may go into a fragment header included in the middle of the body"""
        rng = self.rng
        i = 0
        while i < len(body):
            if rng.random() < 0.12 and len(body) - i >= 1:
                k = rng.randint(1, len(body) - i)
                h = self.new_header()
                self.pad(h, 0, 4)
                for s in body[i:i + k]:
                    self.emit_stmt(h, f, s, ind)
                    self.pad(h, 0, 1)
                if rng.random() < 0.5: self.pad(h, 0, 3)
                em.put('#include "/%s"' % h.name)
                i += k
            else:
                self.emit_stmt(em, f, body[i], ind)
                if rng.random() < 0.3: self.pad(em, 1, 2)
                i += 1

    def new_header(self):
        self.nh += 1
        h = Emitter('g/h%d.h' % self.nh)
        self.files[h.name] = h
        return h

    def emit_func(self, em, f):
        f.file = em.name
        em.put('int %s() {' % f.name)
        em.put('  int i, j, k; mixed e;')
        if self.rng.random() < 0.3: self.pad(em, 0, 2)
        self.emit_body(em, f, f.body, '  ')
        r = Stmt('ret'); f.ret = r
        self.emit_stmt(em, f, r, '  ')
        em.put('}')

    def emit_func_somewhere(self, em, f, depth=0):
        """the definition goes straight into em, or into a header (possibly nested) included from em"""
        rng = self.rng
        if depth < 3 and rng.random() < (0.35 if depth == 0 else 0.4):
            h = self.new_header()
            self.pad(h, 0, 3)
            self.emit_func_somewhere(h, f, depth + 1)
            self.pad(h, 0, 2)
            em.put('#include "/%s"' % h.name)
        else:
            self.emit_func(em, f)

    def build(self):
        rng = self.rng
        progs = ['m']
        if rng.random() < 0.7:
            progs.append('p'); self.inherit['m'] = 'p'
            if rng.random() < 0.45: progs.append('q'); self.inherit['p'] = 'q'
        if rng.random() < 0.6: progs.append('o')
        names = {'m': ['main', 'mf1', 'mf2'], 'p': ['pf1', 'pf2'], 'q': ['qf1', 'qf2'], 'o': ['of1', 'of2']}
        for p in progs:
            k = rng.randint(1, len(names[p]))
            self.order[p] = [Func(n, p) for n in names[p][:max(k, 1)]]
            for f in self.order[p]: self.funcs[(p, f.name)] = f
        # override: m redefines pf1 and calls ::pf1()
        self.override = None
        if 'p' in progs and rng.random() < 0.3:
            ov = Func('pf1', 'm'); self.order['m'].append(ov); self.funcs[('m', 'pf1')] = ov
            sc = Stmt('call', how='local', target=self.funcs[('p', 'pf1')], multi=False, via='direct'); sc.super_call = True
            ov.body = [Stmt('simple', multi=False), sc]
            self.override = ov
        budget = [14 if self.tier == 'quick' else 30]
        for p in reversed(progs):
            for f in reversed(self.order[p]):
                if f is self.override: continue
                f.body = self.gen_body(f, 0, budget)
        # main must call something when it can
        main = self.funcs[('m', 'main')]
        cal = self.callees(main)
        if cal and not any(s.kind in ('call', 'catch') for s in main.body):
            how, g = rng.choice(cal)
            main.body.append(Stmt('call', how=how, target=g, multi=False, via='direct' if how == 'local' else 'other'))
        # text
        for p in progs:
            em = Emitter('g/%s.c' % p); self.files[em.name] = em
            if getattr(self, 'pragma', {}).get(p): em.put('#pragma save_binary')      # used by C17
            self.pad(em, 0, 3)
            if self.inherit.get(p): em.put('inherit "/g/%s";' % self.inherit[p])
            else: em.put('inherit "/mk";')
            em.put('int g%s; mixed ga; int zero; string sk;' % p)
            if self.fpvars.get(p): em.put('function %s;' % ', '.join('fp%d' % i for i in range(self.fpvars[p])))
            if p in ('m', 'o'): em.put('int warm() { return 0; }')
            if p == 'm' and not getattr(self, 'no_big_pad', False) and rng.random() < (0.1 if self.tier == 'quick' else 0.2):
                # enough lines to cross the 15-bit / 16-bit line counters
                for i in range(rng.choice((33000, 66000))): em.put('')
                self.big_pad = True
            elif rng.random() < 0.3:
                for i in range(rng.randint(200, 700)): em.put('// filler %d' % i)
            fl = list(self.order[p])
            rng.shuffle(fl)
            # prototypes so that order in the file does not matter
            for f in fl: em.put('int %s();' % f.name)
            for f in fl:
                self.pad(em, 0, 3)
                self.emit_func_somewhere(em, f)
            self.pad(em, 0, 2)
        return self

    # ---- abstract interpreter: the dynamic sequence of segments
    def resolve(self, name, objprog):
        for p in self.chain(objprog):
            if (p, name) in self.funcs: return self.funcs[(p, name)]
        return None

    def run(self):
        self.segs = []
        self.stack = []
        self.steps = 0
        self.natural = []       # segments in which a natural runtime error is raised, in order
        try:
            self.call(self.funcs[('m', 'main')], 'm')
        except Boom:
            pass
        return self.segs

    def seg(self, mid, file, lo, hi):
        chain = [tuple(fr) for fr in self.stack[:-1]] + [(self.stack[-1][0], self.stack[-1][1], self.stack[-1][2], file, lo, hi)]
        self.segs.append({'mid': mid, 'file': file, 'lo': lo, 'hi': hi, 'chain': chain})
        self.stack[-1][3:6] = [file, lo, hi]

    def call(self, f, objprog, fname=None):
        self.steps += 1
        if self.steps > 4000: raise OverflowError()
        self.stack.append([fname or f.name, 'g/%s.c' % f.prog, '/g/%s' % objprog, f.file, 0, 0])
        self.exec_body(f.body, f, objprog)
        self.seg(f.ret.mid, f.ret.file, f.ret.lo, f.ret.hi)
        self.stack.pop()

    def exec_body(self, body, f, objprog):
        for s in body:
            self.exec_stmt(s, f, objprog)

    def target_of(self, s, f, objprog):
        g = s.target
        if s.via == 'other': return g, 'o'
        if getattr(s, 'super_call', False): return g, objprog
        return self.resolve(g.name, objprog), objprog      # virtual dispatch: most-derived definition in the object's program

    def exec_stmt(self, s, f, objprog):
        if s.kind in ('simple', 'long', 'litdef', 'anondef', 'ret', 'inc'):
            self.seg(s.mid, s.file, s.lo, s.hi)
        elif s.kind == 'frag':
            self.exec_body(s.frag['body'], f, objprog)
        elif s.kind == 'boom':
            self.seg(s.mid, s.file, s.lo, s.hi)
            self.natural.append(len(self.segs) - 1)
            raise Boom()
        elif s.kind == 'call':
            self.seg(s.mid, s.file, s.lo, s.hi)
            g, op = self.target_of(s, f, objprog)
            self.call(g, op)
            self.seg(None, s.file, s.lo, s.hi)
        elif s.kind == 'catch':
            self.seg(s.mid, s.file, s.lo, s.hi)
            g, op = self.target_of(s, f, objprog)
            self.stack.append(['CATCH', self.stack[-1][1], self.stack[-1][2], s.file, s.lo, s.hi])
            self.seg(None, s.file, s.lo, s.hi)      # inside the catch, before the call
            depth = len(self.stack)
            try:
                self.call(g, op)
                self.seg(None, s.file, s.lo, s.hi)      # inside the catch, after the call returned
            except Boom:
                del self.stack[depth:]                  # the catch unwinds to its own frame
            self.stack.pop()
            self.seg(None, s.file, s.lo, s.hi)
        elif s.kind == 'for':
            # the loop statement spans header..closing brace; the compiler emits condition and increment when the loop is
            # complete, so any line of the loop statement is a line "of the statement being executed" for them
            self.seg(s.mid, s.file, s.lo, s.end)
            for _ in range(s.n):
                self.exec_body(s.body, f, objprog)
                if s.loop == 'while': self.seg(s.inc.mid, s.inc.file, s.inc.lo, s.inc.hi)
                self.seg(None, s.file, s.lo, s.end)
        elif s.kind == 'if':
            self.seg(s.mid, s.file, s.lo, s.hi)
            self.exec_body(s.then if s.cond else (s.els or []), f, objprog)
            self.seg(None, s.file, s.lo, s.end)             # leaving the if: a jump that belongs to the compound statement
        elif s.kind == 'sswitch':
            self.seg(s.mid, s.file, s.lo, s.end)           # the table lookup belongs to the switch statement
            if s.pick < len(s.labels): self.exec_body(s.cases[s.pick], f, objprog)
            elif s.dflt: self.exec_body(s.cases[len(s.labels)], f, objprog)
            self.seg(None, s.file, s.lo, s.end)           # break / fall out of the switch
        elif s.kind == 'eval':
            self.seg(s.mid, s.file, s.lo, s.hi)
            d = s.defstmt
            self.stack.append(['<function>', self.stack[-1][1], self.stack[-1][2], d.file, 0, 0])
            if d.kind == 'litdef':
                self.seg(d.lit.mid, d.lit.file, d.lit.lo, d.lit.hi)
            else:
                self.exec_body(d.body, f, objprog)
                self.seg(d.ret.mid, d.ret.file, d.ret.lo, d.ret.hi)
            self.stack.pop()
            self.seg(None, s.file, s.lo, s.hi)
        else:
            raise AssertionError(s.kind)


def _world(rng, tier):
    for _ in range(20):
        w = World(rng, tier).build()
        try:
            w.run()
        except OverflowError:
            continue
        if len(w.segs) <= (120 if tier == 'quick' else 400): return w
    return w


def gen(rng, tier, i):
    w = _world(rng, tier)
    p = Plan()
    p.file('mcfg.h', mcfg({}))
    p.cfg('Port', '4000:telnet')
    p.cfg('MaxEvaluationCost', 5000000)
    p.cfg('MaxInheritDepth', 4)
    p.opt('fault_only_prefix', 'g/')
    for name, em in sorted(w.files.items()): p.file(name, em.text())
    p.cycle(connect(0, 0))
    p.cycle(send(0, 'do name u0\r\n'))
    p.cycle(send(0, 'do call /g/m warm\r\n'))
    if 'o' in w.order: p.cycle(send(0, 'do call /g/o warm\r\n'))
    j = p.cycle(send(0, 'do call /g/m main\r\n'))
    p.opt('c18_cycle', j)
    # a global variable whose initialiser fails (in the program file or in a header it includes): the error is raised while the
    # object is loaded, by code that the compiler assembles apart from the functions
    if rng.random() < 0.5:
        pad1 = rng.randint(0, 30); pad2 = rng.randint(0, 12); inh = rng.random() < 0.4
        body = 'int gz() { return 0; }\n' + '// pad\n' * pad2 + 'int ga = 5;\nmixed gb = ({ 1, 2 })[gz() + %d];\nint gc = 7;\n' % rng.choice((2, 5))
        line_in_body = 1 + pad2 + 2
        if inh:
            p.file('g/gih.h', body)
            p.file('g/gi.c', '\n' * pad1 + '#include "/g/gih.h"\nvoid create() { }\n')
            p.meta['gi'] = ['g/gih.h', line_in_body]
        else:
            p.file('g/gi.c', '\n' * pad1 + body + 'void create() { }\n')
            p.meta['gi'] = ['g/gi.c', pad1 + line_in_body]
        p.cycle(send(0, 'do comp gi /g/gi\r\n'))
    # headers with include guards that include each other (or themselves): the inner copy is skipped as a whole, and the lines
    # of the functions behind the #include are what they are in the file
    if rng.random() < 0.4:
        def pad(): return '// pad\n' * rng.randint(0, 6)
        self_inc = rng.random() < 0.4
        exp = []
        a = pad() + '#ifndef MA_H\n#define MA_H\n' + pad() + '#include "/g/%s.h"\n' % ('ma' if self_inc else 'mb') + pad()
        la = a.count('\n') + 2
        a += 'int mfa() {\n  return 1 / mz();\n}\n#endif\n'
        b = pad() + '#ifndef MB_H\n#define MB_H\n#include "/g/ma.h"\n' + pad()
        lb = b.count('\n') + 2
        b += 'int mfb() {\n  return 2 / mz();\n}\n#endif\n'
        c = pad() + 'int mz() { return 0; }\n#include "/g/ma.h"\n' + pad()
        lc = c.count('\n') + 2
        c += 'int mfc() {\n  return 3 / mz();\n}\nvoid go() { catch(mfa()); %scatch(mfc()); }\n' % ('' if self_inc else 'catch(mfb()); ')
        p.file('g/ma.h', a); p.file('g/mi.c', c)
        if not self_inc: p.file('g/mb.h', b)
        p.meta['mi'] = [['g/ma.h', la]] + ([] if self_inc else [['g/mb.h', lb]]) + [['g/mi.c', lc]]
        p.cycle(send(0, 'do call /g/mi go\r\n'))
    p.idle(1)
    p.meta['segs'] = w.segs
    p.meta['scen'] = i
    p.meta['natural'] = w.natural
    return p


def has_fault(plan): return any(parse_step(s)[0] == 'fault' for c in plan.cycles for s in c)


def without_fault(plan):
    q = plan.copy()
    q.cycles = [[s for s in c if parse_step(s)[0] != 'fault'] for c in q.cycles]
    q.cycles = [c for c in q.cycles if c]
    return q


def with_fault(plan, k):
    q = plan.copy()
    j = int(q.opts()['c18_cycle'])
    q.cycles[j] = [fault(k, 'error')] + q.cycles[j]
    return q


def _markers(res, upto=None):
    out = []
    for idx, e in enumerate(res.events):
        if upto is not None and idx >= upto: break
        if e.kind == 'R' and e.rest.startswith('M '): out.append(int(e.rest.split(' ')[1]))
    return out


def points(plan, res, tier, rng):
    j = int(plan.opts()['c18_cycle']) + 1
    el = {}
    for e in res.of('cycle'):
        el[e.cycle] = int(e.kv().get('elig', 0))
    if j not in el or j + 1 not in el: return []
    n = el[j + 1] - el[j]
    cap = 400 if tier == 'quick' else 2500
    return list(range(n)) if n <= cap else sorted(rng.sample(range(n), cap))


def base_info(plan, res):
    return {'markers': _markers(res), 'segs': plan.meta['segs']}


def check_base(plan, res):
    v = generic_crash_violations(PROP, res)
    if v: return v
    segs = plan.meta['segs']
    want = [s['mid'] for s in segs if s['mid'] is not None]
    got = _markers(res)
    errs = [e.rest for e in res.events if e.kind == 'R' and e.rest.startswith('LOGERR ')]
    nat = [parse_err(e.rest) for e in res.events if e.kind == 'R' and e.rest.startswith('ERR ')]
    gie = [x for x in nat if x and x['program'] == 'g/gi.c']
    nat = [x for x in nat if not (x and (x['program'] == 'g/gi.c' or 'g/gi' in x['msg']))]
    if plan.meta.get('gi'):
        gf, gl = plan.meta['gi']
        if not gie:
            v.append(Violation(PROP, 'no-report', 'the failing initialiser of a global variable in %s:%d was never reported' % (gf, gl), PROP + '/natural/initialiser-unreported'))
        elif gie[0]['file'] != gf or gie[0]['line'] != gl:
            v.append(Violation(PROP, 'line', 'runtime error raised by the initialiser of a global variable at %s:%d is reported at %s:%d' % (gf, gl, gie[0]['file'], gie[0]['line']), PROP + '/natural/initialiser-line'))
    mie = [x for x in nat if x and x['program'] == 'g/mi.c']
    nat = [x for x in nat if not (x and x['program'] == 'g/mi.c')]
    if plan.meta.get('mi'):
        want_mi = [tuple(x) for x in plan.meta['mi']]
        got_mi = [(x['file'], x['line']) for x in mie]
        if len(got_mi) == len(want_mi) and got_mi != want_mi:
            k = next(i for i in range(len(want_mi)) if got_mi[i] != want_mi[i])
            v.append(Violation(PROP, 'line', 'headers with include guards that include %s: the runtime error at %s:%d is reported at %s:%d' % ('each other' if len(want_mi) == 3 else 'themselves', want_mi[k][0], want_mi[k][1], got_mi[k][0], got_mi[k][1]),
                               PROP + '/natural/guarded-%s-inclusion' % ('mutual' if len(want_mi) == 3 else 'self')))
        elif len(got_mi) != len(want_mi):
            v.append(Violation(PROP, 'harness', 'the guarded-header program reported %d runtime errors, %d expected' % (len(got_mi), len(want_mi)), PROP + '/harness/guarded-header-count'))
    if errs:
        v.append(Violation(PROP, 'harness', 'the generated program does not compile cleanly: %s' % errs[0][:300], PROP + '/harness/program-error'))
    elif got != want:
        v.append(Violation(PROP, 'harness', 'marker sequence of the fault-free run %r differs from the abstract interpreter %r' % (got[:40], want[:40]), PROP + '/harness/marker-sequence'))
    elif len(nat) != len(plan.meta['natural']):
        v.append(Violation(PROP, 'harness', 'the fault-free run reported %d runtime errors, the program contains %d failing statements that execute' % (len(nat), len(plan.meta['natural'])), PROP + '/harness/natural-count'))
    else:
        # natural errors: the failing statement is known exactly
        for err, si in zip(nat, plan.meta['natural']):
            sgm = segs[si]
            if err is None: continue
            if err['file'] == sgm['file'] and sgm['lo'] > 65535 and any((l - err['line']) % 65536 == 0 for l in range(sgm['lo'], sgm['hi'] + 1)):
                v.append(Violation(PROP, 'line', 'runtime error raised by the statement at %s:%d is reported at line %d: line numbers wrap at 65536' % (sgm['file'], sgm['lo'], err['line']), PROP + '/line/wraps-at-65536'))
                continue
            if err['file'] != sgm['file'] or not (sgm['lo'] <= err['line'] <= sgm['hi']):
                v.append(Violation(PROP, 'line', 'runtime error (%s) raised by the statement at %s:%d..%d is reported at %s:%d' % (err['msg'][:40], sgm['file'], sgm['lo'], sgm['hi'], err['file'], err['line']),
                                   PROP + '/natural/line'))
                continue
            w = _chain_mismatch(sgm, err)
            if w:
                v.append(Violation(PROP, 'trace', 'runtime error raised at %s:%d: trace does not match the active calls: %s' % (err['file'], err['line'], w),
                                   PROP + ('/trace/wraps-at-65536' if w.startswith('wraps-at-65536') else '/natural/trace')))
    return v


def _norm(f): return f.lstrip('/') if f else f


def parse_err(rest):
    m = re.match(r'ERR caught=(\d) file=(\S*) line=(-?\d+) object=(\S+) program=(\S+) msg=(.*) trace=(\S*) tfiles=(\S*)$', rest)
    if not m: return None
    tr = []
    tf = m.group(8).split('|') if m.group(8) else []
    for i, t in enumerate(m.group(7).split('|') if m.group(7) else []):
        mm = re.match(r'(.*)@(.*):(-?\d+)\((.*)\)$', t)
        tr.append((mm.group(1), _norm(mm.group(2)), mm.group(4), _norm(tf[i]) if i < len(tf) else '', int(mm.group(3))))
    return {'caught': int(m.group(1)), 'file': _norm(m.group(2)), 'line': int(m.group(3)), 'object': m.group(4), 'program': _norm(m.group(5)), 'msg': m.group(6), 'trace': tr}


def _gtrace(err):
    tr = err['trace']
    k0 = next((i for i, t in enumerate(tr) if t[1].startswith('g/')), None)
    return [t for t in (tr[k0:] if k0 is not None else []) if t[1] != '<function>']   # the efun-callback pseudo frame has no source position


def _chain_mismatch(s, err):
    gtr = _gtrace(err)
    ch = s['chain']
    if len(ch) != len(gtr): return 'length %d vs %d' % (len(gtr), len(ch))
    for idx, (c, t) in enumerate(zip(ch, gtr)):
        fn, prog, ob, file, lo, hi = c
        if t[0] != fn: return 'frame %d function %s, expected %s' % (idx, t[0], fn)
        if t[1] != prog: return 'frame %d program %s, expected %s' % (idx, t[1], prog)
        if t[2] != ob: return 'frame %d object %s, expected %s' % (idx, t[2], ob)
        if t[3] != file: return 'frame %d file %s, expected %s' % (idx, t[3], file)
        if not (lo <= t[4] <= hi):
            if lo > 65535 and any((l - t[4]) % 65536 == 0 for l in range(lo, hi + 1)): return 'wraps-at-65536: frame %d line %d, expected %d..%d of %s' % (idx, t[4], lo, hi, file)
            return 'frame %d line %d, expected %d..%d of %s' % (idx, t[4], lo, hi, file)
    return None


def check_point(plan, res, info):
    v = generic_crash_violations(PROP, res)
    if v: return v
    fi = next((i for i, e in enumerate(res.events) if e.kind == 'fault_fired'), None)
    if fi is None: return v
    segs = info['segs']
    seen = _markers(res, fi)
    base = info['markers']
    if seen != base[:len(seen)]: return v      # not the same execution (cannot happen: runs are deterministic)
    if base != [s_['mid'] for s_ in segs if s_['mid'] is not None]: return v      # reported by check_base as a harness error
    err = None
    for e in res.events[fi:]:
        if e.kind == 'R' and e.rest.startswith('ERR ') and INJECT in e.rest:
            err = parse_err(e.rest); break
    if err is None:
        v.append(Violation(PROP, 'no-report', 'an error injected at %s was never given to master::error_handler' % res.events[fi].rest, PROP + '/no-report'))
        return v
    # admissible segments: from the segment of the last marker seen to the segment of the next marker
    midx = [i for i, s in enumerate(segs) if s['mid'] is not None]
    j = len(seen)
    a = midx[j - 1] if j > 0 else 0
    b = midx[j] if j < len(midx) else len(segs) - 1
    cand = segs[a:b + 1]
    def kind(f): return 'include' if f.endswith('.h') else 'main'
    okline = [s for s in cand if s['file'] == err['file'] and s['lo'] <= err['line'] <= s['hi']]
    if not okline and any(s['file'] == err['file'] and s['lo'] > 65535 and any((l - err['line']) % 65536 == 0 for l in range(s['lo'], s['hi'] + 1)) for s in cand):
        v.append(Violation(PROP, 'line', 'error injected at %s in a statement at line %s of %s is reported at line %d: line numbers wrap at 65536' % (res.events[fi].rest, [(s['lo'], s['hi']) for s in cand if s['lo'] > 65535][:2], err['file'], err['line']),
                           PROP + '/line/wraps-at-65536'))
        return v
    if not okline:
        near = [(s['file'], s['lo'], s['hi']) for s in cand]
        in_inh = err['program'] != 'g/m.c'
        v.append(Violation(PROP, 'line', 'error injected at %s reported at %s:%d but the statements that can be executing there are %s' % (res.events[fi].rest, err['file'], err['line'], near[:6]),
                           '%s/line/%s%s' % (PROP, kind(err['file']) if any(s['file'] == err['file'] for s in cand) else 'wrong-file', '-inherited' if in_inh else '')))
        return v
    # trace: suffix starting at the first generated frame
    tr = err['trace']
    k0 = next((i for i, t in enumerate(tr) if t[1].startswith('g/')), None)
    gtr = [t for t in (tr[k0:] if k0 is not None else []) if t[1] != '<function>']   # the efun-callback pseudo frame has no source position
    def chain_ok(s):
        return _chain_mismatch(s, err)
    def chain_ok_unused(s):
        ch = s['chain']
        if len(ch) != len(gtr): return 'length %d vs %d' % (len(gtr), len(ch))
        for idx, (c, t) in enumerate(zip(ch, gtr)):
            fn, prog, ob, file, lo, hi = c
            if t[0] != fn: return 'frame %d function %s, expected %s' % (idx, t[0], fn)
            if t[1] != prog: return 'frame %d program %s, expected %s' % (idx, t[1], prog)
            if t[2] != ob: return 'frame %d object %s, expected %s' % (idx, t[2], ob)
            if t[3] != file: return 'frame %d file %s, expected %s' % (idx, t[3], file)
            if not (lo <= t[4] <= hi):
                if lo > 65535 and any((l - t[4]) % 65536 == 0 for l in range(lo, hi + 1)): return 'wraps-at-65536: frame %d line %d, expected %d..%d of %s' % (idx, t[4], lo, hi, file)
                return 'frame %d line %d, expected %d..%d of %s' % (idx, t[4], lo, hi, file)
        return None
    why = [chain_ok(s) for s in okline]
    if all(why):
        w = why[0]
        # candidates of another call depth (the statement before the catch was entered, after it was left) cannot be the one that
        # was executing: when those of the observed depth all differ by a multiple of 65536 lines only, that is the known wrap
        same = [chain_ok(s_) for s_ in okline if len(s_['chain']) == len(gtr)]
        if same and all(x and x.startswith('wraps-at-65536') for x in same):
            v.append(Violation(PROP, 'trace', 'error injected at %s: outer trace frame line wraps at 65536: %s' % (res.events[fi].rest, same[0]), PROP + '/trace/wraps-at-65536'))
            return v
        if all(x.startswith('wraps-at-65536') for x in why):
            v.append(Violation(PROP, 'trace', 'error injected at %s: outer trace frame line wraps at 65536: %s' % (res.events[fi].rest, w), PROP + '/trace/wraps-at-65536'))
            return v
        cls = re.sub(r'\d+', 'N', w.split(',')[0])
        cls = re.sub(r'[^A-Za-z]+', '-', ' '.join(cls.split(' ')[:3])).strip('-')
        v.append(Violation(PROP, 'trace', 'error injected at %s (reported %s:%d): trace %s does not match the active calls: %s' % (res.events[fi].rest, err['file'], err['line'], ['%s@%s:%s:%d' % (t[0], t[1], t[3], t[4]) for t in gtr], w),
                           '%s/trace/%s' % (PROP, cls)))
        return v
    inner = okline[0]['chain'][-1]
    if err['program'] != inner[1] or err['object'] != inner[2]:
        v.append(Violation(PROP, 'where', 'error reported with program %s object %s, innermost frame is %s in %s' % (err['program'], err['object'], inner[1], inner[2]), PROP + '/where/program-or-object'))
    return v


def summarize_point(plan, res, info):
    fired = res.of('fault_fired')
    if not fired: return {'nontrivial': False, 'abstract': 'nofault'}
    err = None
    for e in res.events:
        if e.kind == 'R' and e.rest.startswith('ERR ') and INJECT in e.rest: err = parse_err(e.rest); break
    if not err: return {'nontrivial': True, 'abstract': 'noerr'}
    shape = '>'.join('%s:%s' % (t[0] if t[0] in ('CATCH', '<function>') else 'f', 'h' if t[3].endswith('.h') else 'c') for t in err['trace'] if t[1].startswith('g/'))
    return {'nontrivial': True, 'abstract': hashlib.sha256((str(plan.meta.get('scen', '')) + shape + err['program']).encode()).hexdigest()[:12],
            'probes': {'in_include': 1 if err['file'].endswith('.h') else 0, 'in_inherited': 1 if err['program'] not in ('g/m.c', 'g/o.c') else 0,
                       'in_function_literal': 1 if '<function>' in shape else 0, 'under_catch': 1 if 'CATCH' in shape else 0,
                       'line_above_65535': 1 if err['line'] > 65535 else 0}}
