# C17 - a program loaded from a saved binary equals what its source compiles to, and a stale binary is never used.
# Engine W-loop over several driver lives: the plan restarts the driver ("restart" step: a new process boots over the same
# scratch directory, only files and their simulated modification times survive).  Generated programs (the C18 layout
# generator: includes at several depths, inheritance, function literals, long statements) are compiled with
# #pragma save_binary, then edited / touched / reloaded / restarted in seeded histories on a simulated clock.
import re, hashlib, random
from ..core import Plan, Violation, generic_crash_violations, enc, dec
from ..world import *
from . import c18

PROP = 'C17'
LEVEL = 'exploration'
RULE = ('one run = 3-8 phases over 1-4 driver lives; a phase = optional edits (a marker statement inserted into a random function - '
        'in the main file, an include at any depth, or an inherited program -, or a bare touch of a random file, or a touch of the '
        'simul_efun file followed by a restart), the clock advanced by a few seconds, optionally a restart, then every program is '
        'destructed, loaded again, described (functions, variables, inherit list, checksum of the disassembly and line table) and run. '
        'The file layer log tells for every load whether the source or the saved binary was used. non-trivial = at least one program '
        'was loaded from a saved binary and at least one edit happened; distinct = distinct (history shape, outcome per load).')
RULE += (' Later additions: disk faults while binaries are written (one failing call, or the disk stopping for the rest of a life that ends in a restart), the failing write torn at one of eight shares; the next loads find what the save left behind.')
COMPONENTS = {'real': ['lib/lpc/program/binaries.c (save_binary, load_binary, check_times, locate_in/out, patch_in/out)', 'lib/lpc/compiler.c', 'lib/lpc/lex.c include list',
                       'src/simulate.c load_object', 'lib/efuns dump_prog/functions/variables/inherit_list', 'src/backend.c + comm.c'],
              'stub': ['kernel sockets/clock/timer (simulated)', 'file layer: pass-through with simulated modification times that survive restarts'],
              'hook': []}
ASSUMPTIONS = ['a binary is stale when its own source, one of its (transitively) included files, the source or an included file of a (transitively) inherited program, or - after a restart - the simul_efun file has a strictly later modification time',
               'every edit happens at least two simulated seconds after the previous compile (modification times have one-second resolution)',
               'a change of the driver bytecode format cannot be simulated (one binary of the driver)',
               'disk faults are injected while binaries are written (one failing call, or the disk stopping for the rest of a life that then ends in a restart); a later load must not be served from what such a save left behind unless it is complete']

PROGS = ['m', 'p', 'q', 'o']
NO_CYCLE_SHRINK = True     # the oracle indexes plan cycles (phases, lives): removing cycles would change what is judged


def _include_graph(w):
    g = {}
    for name, em in w.files.items():
        g[name] = [m for m in re.findall(r'^#include "/(g/h\d+\.h)"', em.text(), re.M)]
    return g


def _deps(w, prog):
    """files whose text is part of program prog: its .c and everything included from it"""
    g = _include_graph(w)
    out = []; todo = ['g/%s.c' % prog]
    while todo:
        f = todo.pop()
        if f in out: continue
        out.append(f); todo += g.get(f, [])
    return out


def _walk(w):
    """yield (func, body_list, stmt) for every statement that owns lines"""
    def rec(f, body):
        for s in list(body):
            yield f, body, s
            if s.kind == 'for':
                yield from rec(f, s.body)
            elif s.kind == 'if':
                yield from rec(f, s.then)
                if s.els is not None: yield from rec(f, s.els)
            elif s.kind == 'anondef':
                yield from rec(f, s.body)
            elif s.kind == 'sswitch':
                for cb in s.cases: yield from rec(f, cb)
    for (p, n), f in w.funcs.items():
        yield from rec(f, f.body)


def _all_line_owners(w):
    objs = []
    for f, body, s in _walk(w):
        objs.append(s)
        if s.kind == 'for' and s.loop == 'while': objs.append(s.inc)
        if s.kind == 'litdef': objs.append(s.lit)
        if s.kind == 'anondef': objs.append(s.ret)
    for f in w.funcs.values(): objs.append(f.ret)
    return objs


def insert_marker(w, rng):
    """edit: a new marker statement in front of a random statement; returns the edited file name"""
    cands = [(f, body, s) for f, body, s in _walk(w) if s.mid is not None and s.lo > 0]
    if not cands: return None
    f, body, s = rng.choice(cands)
    L, file = s.lo, s.file
    for o in _all_line_owners(w):
        if o.file != file: continue
        if o.lo >= L:
            o.lo += 1; o.hi += 1; o.end = getattr(o, 'end', o.hi) + 1
        elif getattr(o, 'end', 0) >= L or o.hi >= L:
            if o.hi >= L: o.hi += 1
            if getattr(o, 'end', 0) >= L: o.end += 1
    new = c18.Stmt('simple', multi=False)
    new.mid = w.mid(); new.file = file; new.lo = new.hi = new.end = L
    body.insert(body.index(s), new)
    gv = w.gvar(f.prog)
    w.files[file].lines.insert(L - 1, '  M(%d); %s = %s + 0 ;' % (new.mid, gv, gv))
    return file


def insert_global(w, rng, n):
    """edit: one more global variable in front of a program's own variables (shifts the variable layout of everything that inherits it)"""
    progs = [x for x in PROGS if x in w.order]
    # a .c file (in front of its own variables) or a header that holds whole function definitions (file scope)
    cands = [('g/%s.c' % x, 'int g%s;' % x) for x in progs]
    for name, em in w.files.items():
        if name.endswith('.h') and any(re.match(r'int \w+\(\) \{', l) for l in em.lines): cands.append((name, None))
    file, key = rng.choice(cands)
    lines = w.files[file].lines
    if key: L = next((i for i, l in enumerate(lines) if l.startswith(key)), None)
    else: L = next((i for i, l in enumerate(lines) if re.match(r'int \w+\(\) \{', l)), None)
    if L is None: return None
    L += 1                                  # 1-based number of the line that moves down
    for o in _all_line_owners(w):
        if o.file != file: continue
        if o.lo >= L:
            o.lo += 1; o.hi += 1; o.end = getattr(o, 'end', o.hi) + 1
    lines.insert(L - 1, 'int xv%d = %d;' % (n, 100 + n))
    return file


def _twin(text):
    """the same program without the pragma (same line numbers): always compiled from source"""
    return text.replace('#pragma save_binary', '// no saved binary for the twin', 1)


def gen(rng, tier, i):
    w = None
    for _ in range(30):
        w = c18.World(rng, 'quick')
        w.pragma = {p: rng.random() < 0.85 for p in PROGS}
        w.no_big_pad = True      # line numbers above 65535 are C18's known finding, not this property
        w.build()
        try: w.run()
        except OverflowError: continue
        if len(w.segs) <= 80: break
    p = Plan()
    p.file('mcfg.h', mcfg({}))
    p.cfg('Port', '4000:telnet')
    p.cfg('MaxEvaluationCost', 5000000)
    p.cfg('MaxInheritDepth', 4)
    p.cfg('SaveBinaryDir', '/bin')
    p.opt('fs_log', 1)
    p.opt('max_instr', 100000000)
    for name, em in sorted(w.files.items()): p.file(name, em.text())
    p.file('g/m2.c', _twin(w.files['g/m.c'].text()))
    # a parent with saved argument types (#pragma save_types) and a child that is always compiled from source against it:
    # the child's compile-time argument checks read the parent's type table, which load_binary() permutes
    TYPES = [('int', 'x + 1', '1'), ('string', 'x + "s"', '"q"'), ('int *', 'x + ({ 1 })', '({ 2 })'), ('object', 'x', 'this_object()'),
             ('mapping', 'x', '([ ])'), ('float', 'x', '1.5'), ('mixed *', 'x', '({ })'), ('string *', 'x', '({ "a" })')]
    tfn = []
    for k in range(rng.randint(3, 9)):
        nm = 't' + ''.join(rng.choice('abcdefghijklmnopqrstuvwxyz') for _ in range(rng.randint(2, 6))) + str(k)
        tfn.append((nm, [rng.choice(TYPES) for _ in range(rng.randint(0, 3))]))
    tp = '#pragma save_binary\n#pragma save_types\n#pragma strict_types\n'
    for nm, args in tfn:
        tp += 'mixed %s(%s) { return %s; }\n' % (nm, ', '.join('%s a%d' % (t[0], j) for j, t in enumerate(args)), '({ ' + ', '.join('a%d' % j for j in range(len(args))) + ' })')
    tp += 'void warm() { }\n'
    tc = '#pragma strict_types\ninherit "/g/tp";\nmixed main() {\n return ({ ' + ',\n  '.join('%s(%s)' % (nm, ', '.join(t[2] for t in args)) for nm, args in tfn) + ' });\n}\n'
    p.file('g/tp.c', tp); p.file('g/tc.c', tc)
    tnames = [nm for nm, _ in tfn] + ['warm', 'main']
    # a family with a middle program that has NO saved binary and inherits two programs: ia (saved) <- ib <- ic1, ic2 (+ header)
    fam = {'c1': 1, 'c2': 2, 'hv': 3, 'mul': 10000, 'pad': {'ic1': 0, 'ic2': 0, 'ib': 0}}
    def fam_text(which):
        pads = ''.join('int zpad_%s_%d() { return %d; }\n' % (which, k, k) for k in range(fam['pad'].get(which, 0)))
        if which == 'ic1': return pads + 'int c1v() { return %d; }\n' % fam['c1']
        if which == 'ic2': return '#include "/g/ih.h"\n' + pads + 'int c2v() { return %d + HV; }\n' % fam['c2']
        if which == 'ih': return '#define HV %d\n' % fam['hv']
        if which == 'ib': return 'inherit "/g/ic1";\ninherit "/g/ic2";\n' + pads + 'int bv() { return c1v() * %d + c2v(); }\n' % fam['mul']
        return '#pragma save_binary\ninherit "/g/ib";\nint av() { return bv(); }\nvoid warm() { }\n'
    def fam_value(): return fam['c1'] * fam['mul'] + fam['c2'] + fam['hv']
    for which in ('ic1', 'ic2', 'ib', 'ia'): p.file('g/%s.c' % which, fam_text(which))
    p.file('g/ih.h', fam_text('ih'))
    progs = [x for x in PROGS if x in w.order]
    phases = []
    def load_phase(fault=None):
        ph = {'deps': {x: _deps(w, x) for x in progs}, 'inherit': dict(w.inherit), 'segs': [dict(s) for s in w.segs], 'natural': list(w.natural), 'progs': progs}
        cyc = []
        cyc.append(p.cycle(connect(0, 0)) if load_phase.need_connect else None)
        load_phase.need_connect = False
        # address-order perturbation: load_binary() re-sorts tables by the addresses of the shared name strings, so the
        # names are interned in a fresh seeded order (by an object that stays loaded) before the programs come back
        idents = sorted(set(re.findall(r'\b[A-Za-z_]\w{0,30}\b', ' '.join(em.text() for em in w.files.values()))))
        idents = sorted(set(idents + tnames))
        rng.shuffle(idents)
        p.cycle(send(0, 'do ' + ';'.join('dest /g/%s' % x for x in progs + ['perm', 'tc', 'tp', 'ia', 'ib', 'ic1', 'ic2']) + '\r\n'))
        p.cycle('writefile g/perm.c %s' % enc('string *names() {\n return ({ %s });\n}\nvoid warm() { }\n' % ',\n '.join('"%s"' % n for n in idents[:400])),
                send(0, 'do call /g/perm warm\r\n'))
        ph['load_cycles'] = {}
        for x in reversed(progs):      # o first, then the inherit chain bottom-up is triggered by m
            pass
        if fault:
            # the disk fails while the programs are compiled and their binaries written: one call fails (a full disk, an I/O
            # error) or everything from one call on fails and the driver is restarted (a crash in the middle of a save)
            p.cycle('fsarm %d%s torn:%d' % (fault[1], ' once' if fault[0] == 'once' else '', fault[2])); ph['fault'] = list(fault)
        order = [x for x in ('o', 'm') if x in progs]
        for x in order:
            ph['load_cycles'][x] = p.cycle(send(0, 'do call /g/%s warm\r\n' % x))
        if fault:
            p.cycle('fsdisarm')
            if fault[0] == 'crash':
                # the driver dies with the disk: nothing else is asked of this life
                ph.update({'pinfo_cycle': None, 'run_cycle': None, 'twin_cycle': None, 'typed_cycle': None, 'fam_cycle': None})
                phases.append(ph)
                return
        ph['pinfo_cycle'] = p.cycle(send(0, 'do ' + ';'.join('pinfo /g/%s' % x for x in progs) + '\r\n'))
        ph['run_cycle'] = p.cycle(send(0, 'do xco r /g/m main\r\n'))
        # the twin: same text, never loaded from a binary, run against freshly loaded helpers
        ph['twin_cycle'] = p.cycle(send(0, 'do dest /g/o;dest /g/m2;%sxco r2 /g/m2 main\r\n' % ('call /g/o warm;' if 'o' in progs else '')))
        ph['typed_cycle'] = p.cycle(send(0, 'do call /g/tp warm;xco t /g/tc main\r\n'))
        ph['fam_cycle'] = p.cycle(send(0, 'do xco f /g/ia av\r\n')); ph['fam_expect'] = fam_value()
        if zl_len: ph['zl_cycle'] = p.cycle(send(0, 'do dest /g/zl;xco z /g/zl zn\r\n')); ph['zl_expect'] = zl_len
        if lp_path: ph['lp_cycle'] = p.cycle(send(0, 'do dest /%s;xco l /%s v\r\n' % (lp_path, lp_path)))
        phases.append(ph)
    # now and then: a program with #pragma save_binary whose string table holds a constant folded from many literals, around
    # the 65535 characters that a saved binary can describe
    zl_len = 0
    if rng.random() < 0.2:
        nlit = rng.choice((60, 65, 66, 70)); last = rng.choice((1000, 535, 534, 536, 999))
        zl_len = (nlit - 1) * 1000 + last
        lits = ['"%s"' % (chr(97 + k % 26) * 1000) for k in range(nlit - 1)] + ['"%s"' % ('z' * last)]
        p.file('g/zl.c', '#pragma save_binary\nstring zs() { return ' + ' +\n'.join(lits) + '; }\nint zn() { return strlen(zs()); }\n')
    # now and then: a program with a saved binary that lives many directories deep (object names can be as long as a path)
    lp_path = None
    if rng.random() < 0.15:
        lp_path = 'g/' + '/'.join(ch * rng.choice((40, 90, 100)) for ch in 'pqrst'[:rng.choice((2, 4, 5))]) + '/lp'
        p.file(lp_path + '.c', '#pragma save_binary\nint v() { return 5; }\n')
    load_phase.need_connect = True
    lives = 1
    def faulty_phase():
        fault = (rng.choice(('once', 'crash')) if lives < 4 else 'once', rng.choice((0, 1, 2, 3, 4, 5, 6, 8, 10, 14, 20)),
                 rng.choice((0, 40, 300, 600, 850, 950, 990, 999)) if rng.random() < 0.4 else rng.randint(0, 999))      # share of the failing write that still reaches the file
        load_phase(fault)
        # whatever the failed save left behind is what the next loads find, in this life or the next
        if fault[0] == 'crash':
            p.cycle('idle'); p.cycle('restart %d' % rng.randint(2, 20))
            load_phase.need_connect = True
        p.cycle('adv %d' % (rng.randint(2, 6) * 1000000))
        load_phase()
        return fault[0] == 'crash'
    if rng.random() < 0.3: lives += faulty_phase()      # the very first compilation: every binary is written in it
    else: load_phase()
    n = rng.randint(2, 7)
    for k in range(n):
        p.cycle('adv %d' % (rng.randint(2, 6) * 1000000))
        r = rng.random()
        restart = False
        if r < 0.45 and rng.random() < 0.35:
            # edit one member of the inherit family (a new value, and a function in front so that indexes shift)
            which = rng.choice(('ic1', 'ic2', 'ic2', 'ih', 'ib'))
            if which == 'ic1': fam['c1'] += 7
            elif which == 'ic2': fam['c2'] += 5
            elif which == 'ih': fam['hv'] += 11
            else: fam['mul'] += 1000
            if which != 'ih' and rng.random() < 0.7: fam['pad'][which] += 1
            p.cycle('writefile g/%s %s' % ('ih.h' if which == 'ih' else which + '.c', enc(fam_text(which))))
        elif r < 0.45:
            f = insert_marker(w, rng) if rng.random() < 0.65 else insert_global(w, rng, k)
            if f:
                try: w.run()
                except OverflowError: pass
                p.cycle('writefile %s %s' % (f, enc(w.files[f].text())))
                if f == 'g/m.c': p.cycles[-1].append('writefile g/m2.c %s' % enc(_twin(w.files[f].text())))
        elif r < 0.65:
            f = rng.choice(sorted(w.files))
            p.cycle('touch %s' % f)
        elif r < 0.75 and lives < 4:
            p.cycle('touch simul_efun.c'); restart = True
        # else: nothing changes
        p.cycle('adv %d' % (rng.randint(2, 6) * 1000000))
        if (restart or rng.random() < 0.35) and lives < 4:
            p.cycle('idle'); p.cycle('restart %d' % rng.randint(2, 20)); lives += 1
            load_phase.need_connect = True
        if rng.random() < 0.3: lives += faulty_phase()
        else: load_phase()
    p.idle(1)
    p.meta['phases'] = phases
    return p


def check(plan, res):
    v = generic_crash_violations(PROP, res)
    if v: return v
    out = []
    def bad(kind, msg, cls): out.append(Violation(PROP, kind, msg, PROP + '/' + cls))
    phases = plan.meta['phases']
    # split the event log into lives; plan cycle j of the whole plan is event cycle (j - first cycle of the life + 1) of its life
    life_of_cycle = {}; life = 0; first = 0
    for j, c in enumerate(plan.cycles):
        if c and c[0].startswith('restart'):
            life += 1; first = j + 1; continue
        life_of_cycle[j] = (life, j - first + 1)
    lives = [[]]
    for e in res.events:
        if e.kind == 'life' : lives.append([])
        lives[-1].append(e)
    def events(j):
        if j is None or j not in life_of_cycle: return []
        li, cyc = life_of_cycle[j]
        if li >= len(lives): return []
        return [e for e in lives[li] if e.cycle == cyc]
    mt = {}                       # simulated mtimes as the model sees them
    OLD = 1000000000 - 100000
    simul_changed_life = None     # life in which simul_efun.c was touched: binaries written before are void from the next life on
    bin_life = {}
    last_pinfo = {}               # prog -> (source version key, pinfo text) from a source compile
    version = {}                  # file -> edit counter
    # replay mtimes in log order together with the phases
    ev_by_life_cycle = {}
    cur_life = 0
    mt_events = []
    for li, evs in enumerate(lives):
        for e in evs:
            if e.kind == 'mt':
                w = e.rest.split(' ')
                mt_events.append((li, e.cycle, dec(w[0]).decode(), int(w[1])))
    def mtimes_until(li, cyc):
        d = {}
        for (l2, c2, path, t) in mt_events:
            if (l2, c2) <= (li, cyc): d[path] = t
        return d
    touched_simul = [(l2, c2) for (l2, c2, path, t) in mt_events if path == 'simul_efun.c']
    nbin = 0
    for ph in phases:
        # the typed parent/child pair: the child is valid source, so compiling it against the parent must succeed whether the
        # parent came from its source or from its binary
        tev = events(ph.get('typed_cycle'))
        xr = [e.rest for e in tev if e.kind == 'R' and e.rest.startswith('XR t ')]
        if xr and xr[-1].startswith('XR t err'):
            frombin = any(e.kind == 'fs' and e.rest.startswith('open_r bin/g/tp.b ') and not e.rest.endswith('ret=-1') for e in tev)
            logs = [e.rest for e in tev if e.kind == 'R' and e.rest.startswith('LOGERR')]
            bad('typed', 'a valid child of g/tp (#pragma save_types, loaded from %s) does not compile: %s' % ('its binary' if frombin else 'source', (logs[0] if logs else xr[-1])[:160]),
                'behaviour/saved-types-differ-with-binary' if frombin else 'behaviour/typed-child-does-not-compile')
        fev = events(ph.get('fam_cycle'))
        fx = [e.rest for e in fev if e.kind == 'R' and e.rest.startswith('XR f ')]
        if fx and fx[-1] != 'XR f int:%d' % ph['fam_expect']:
            frombin = any(e.kind == 'fs' and e.rest.startswith('open_r bin/g/ia.b ') and not e.rest.endswith('ret=-1') for e in fev)
            bad('family', 'g/ia (saved binary) <- g/ib (none) <- g/ic1, g/ic2: av() returned %s, the current sources say int:%d (ia loaded from %s)' % (fx[-1][5:], ph['fam_expect'], 'its binary' if frombin else 'source'),
                'behaviour/inherit-family-stale' if frombin else 'behaviour/inherit-family-wrong')
        if ph.get('zl_cycle') is not None:
            zx = [e.rest for e in events(ph['zl_cycle']) if e.kind == 'R' and e.rest.startswith('XR z ')]
            if zx and zx[-1] != 'XR z int:%d' % ph['zl_expect']:
                bad('longconst', 'g/zl (saved binary, string constant of %d characters): zn() returned %s' % (ph['zl_expect'], zx[-1][5:]), 'behaviour/long-constant')
        if ph.get('lp_cycle') is not None:
            lx = [e.rest for e in events(ph['lp_cycle']) if e.kind == 'R' and e.rest.startswith('XR l ')]
            if lx and lx[-1] != 'XR l int:5':
                bad('longpath', 'a program many directories deep (saved binary): v() returned %s' % lx[-1][5:], 'behaviour/long-path')
        progs = ph['progs']
        inh = ph['inherit']
        def chain(x):
            o = [x]
            while inh.get(o[-1]): o.append(inh[o[-1]])
            return o
        # which programs were loaded from source / binary in this phase
        used = {}
        for x, j in ph['load_cycles'].items():
            evs = events(j)
            if not evs: continue
            li, cyc = life_of_cycle[j]
            before = mtimes_until(li, cyc - 1)
            for y in (chain(x) if x == 'm' else [x]):
                if y not in progs: continue
                src = any(e.kind == 'fs' and e.rest.startswith('open_r g/%s.c ' % y) and not e.rest.endswith('ret=-1') for e in evs)
                binr = any(e.kind == 'fs' and e.rest.startswith('open_r bin/g/%s.b ' % y) and not e.rest.endswith('ret=-1') for e in evs)
                if not src and not binr: continue
                used[y] = 'source' if src else 'binary'
                if not src:
                    nbin += 1
                    bt = before.get('bin/g/%s.b' % y)
                    if bt is None:
                        bad('stale', 'program g/%s was loaded from a binary that the log never saw written' % y, 'binary/unknown-origin'); continue
                    newer = []
                    for z in chain(y):
                        for f in ph['deps'].get(z, ['g/%s.c' % z]):
                            if before.get(f, OLD) > bt: newer.append((f, before.get(f, OLD)))
                    # simul_efun touched in an earlier life after the binary was written
                    for (l2, c2) in touched_simul:
                        if l2 < li:
                            st = [t for (l3, c3, pth, t) in mt_events if pth == 'simul_efun.c' and (l3, c3) == (l2, c2)][0]
                            if st > bt: newer.append(('simul_efun.c', st))
                    if newer:
                        kind = 'simul_efun' if newer[0][0] == 'simul_efun.c' else ('include' if newer[0][0].endswith('.h') else ('inherited' if newer[0][0] != 'g/%s.c' % y else 'source'))
                        bad('stale', 'g/%s was loaded from its saved binary (mtime %d) although %s has mtime %d' % (y, bt, newer[0][0], newer[0][1]), 'stale-binary-used/' + kind)
        # behaviour: markers of main equal the abstract interpreter for the current source
        want = [s['mid'] for s in ph['segs'] if s['mid'] is not None]
        got = [int(e.rest.split(' ')[1]) for e in events(ph['run_cycle']) if e.kind == 'R' and e.rest.startswith('M ')]
        errs = [e.rest for e in events(ph['run_cycle']) + sum((events(j) for j in ph['load_cycles'].values()), []) if e.kind == 'R' and (e.rest.startswith('ERR ') or e.rest.startswith('LOGERR '))]
        how = ','.join('%s=%s' % kv for kv in sorted(used.items()))
        # statements that fail naturally: the report must name their file and line also when the program came from a binary
        nat = [c18.parse_err(x) for x in errs if x.startswith('ERR ')]
        exp_nat = ph.get('natural', [])
        if errs and not any(x.startswith('LOGERR ') for x in errs) and len(nat) == len(exp_nat) and got == want:
            for err, si in zip(nat, exp_nat):
                sgm = ph['segs'][si]
                if err is None: continue
                if err['file'] != sgm['file'] or not (sgm['lo'] <= err['line'] <= sgm['hi']):
                    bad('lines', 'runtime error raised by the statement at %s:%d..%d is reported at %s:%d (%s)' % (sgm['file'], sgm['lo'], sgm['hi'], err['file'], err['line'], how),
                        'lines/' + ('with-binary' if 'binary' in used.values() else 'source-only'))
                elif c18._chain_mismatch(sgm, err):
                    bad('lines', 'trace of the runtime error at %s:%d: %s (%s)' % (err['file'], err['line'], c18._chain_mismatch(sgm, err), how), 'trace/' + ('with-binary' if 'binary' in used.values() else 'source-only'))
            errs = []
        if errs:
            bad('behaviour', 'load or run failed (%s): %s' % (how, errs[0][:200]), 'behaviour/error-' + ('with-binary' if 'binary' in used.values() else 'source-only'))
        elif events(ph['run_cycle']) and got != want:
            bad('behaviour', 'main() ran %r, the current source says %r (%s)' % (got[:30], want[:30], how), 'behaviour/markers-' + ('with-binary' if 'binary' in used.values() else 'source-only'))
        # the twin (same text, compiled from source) must run the same statements and return the same value
        tw = events(ph.get('twin_cycle'))
        if tw and events(ph['run_cycle']):
            got2 = [int(e.rest.split(' ')[1]) for e in tw if e.kind == 'R' and e.rest.startswith('M ')]
            r1 = [e.rest for e in events(ph['run_cycle']) if e.kind == 'R' and e.rest.startswith('XR r ')]
            r2 = [e.rest.replace('XR r2 ', 'XR r ') for e in tw if e.kind == 'R' and e.rest.startswith('XR r2 ')]
            if not exp_nat and (got2 != got or r1 != r2):
                bad('behaviour', 'main() of g/m (%s) ran %r and returned %s; its twin compiled from the same source ran %r and returned %s' % (how, got[:25], r1, got2[:25], r2),
                    'behaviour/twin-differs-' + ('with-binary' if 'binary' in used.values() else 'source-only'))
        # structure: a binary-loaded program is described exactly like the last source compile of the same text
        for e in events(ph['pinfo_cycle']):
            if e.kind != 'R' or not e.rest.startswith('PINFO '): continue
            w = e.rest.split(' ', 2)
            y = w[1].split('/')[-1]
            if len(w) < 3 or w[2] == 'none': continue
            key = hashlib.sha256(repr([(f, plan_text_of(plan, ph, f)) for z in chain(y) for f in ph['deps'].get(z, [])] + [inh.get(z) for z in chain(y)]).encode()).hexdigest()
            if used.get(y) == 'source':
                last_pinfo[y] = (key, w[2])
            elif used.get(y) == 'binary' and y in last_pinfo and last_pinfo[y][0] == key and last_pinfo[y][1] != w[2]:
                bad('structure', 'g/%s loaded from its binary is described as %s, compiled from the same source it was %s' % (y, w[2][:150], last_pinfo[y][1][:150]), 'structure/differs')
    plan.meta['_nbin'] = nbin
    seen = set(); res_ = []
    for x in out:
        if x.cls in seen: continue
        seen.add(x.cls); res_.append(x)
    return res_


def plan_text_of(plan, ph, f):
    """version key of file f at the time of phase ph: number of writefile steps for f before the phase's first load cycle"""
    first = min(ph['load_cycles'].values()) if ph['load_cycles'] else 0
    n = 0
    for j, c in enumerate(plan.cycles[:first]):
        for s in c:
            if s.startswith('writefile %s ' % f): n += 1
    return n


def summarize(plan, res):
    nb = sum(1 for e in res.events if e.kind == 'fs' and re.match(r'open_r bin/g/\w+\.b ret=\d', e.rest) and not e.rest.endswith('ret=-1'))
    edits = sum(1 for c in plan.cycles for s in c if s.startswith('writefile') or s.startswith('touch'))
    kinds = []
    for c in plan.cycles:
        for s in c:
            if s.startswith('writefile'): kinds.append('W' + ('h' if '.h ' in s else 'c'))
            elif s.startswith('touch'): kinds.append('T' + s.split(' ')[1][-1])
            elif s.startswith('restart'): kinds.append('R')
    outcome = [e.rest.split(' ')[1] for e in res.events if e.kind == 'fs' and re.match(r'open_r (bin/)?g/\w+\.[bc] ret=\d', e.rest) and not e.rest.endswith('ret=-1')]
    return {'nontrivial': nb > 0 and edits > 0, 'abstract': hashlib.sha256((' '.join(kinds) + '|' + ' '.join(outcome)).encode()).hexdigest()[:16],
            'probes': {'binary_loads': nb, 'source_compiles': sum(1 for o in outcome if o.endswith('.c')), 'edits': edits, 'restarts': sum(1 for k in kinds if k == 'R'),
                       'simul_efun_touched': sum(1 for k in kinds if k == 'Tc' ) }}
