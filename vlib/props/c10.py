# C10 - call_out fires exactly once, on time, and can be cancelled.
# Engine W-loop: real lib/efuns/call_out.c driven by the real backend tick path under a virtual clock.
import re, hashlib
from ..core import Plan, Violation, generic_crash_violations, enc, dec
from ..world import *

PROP = 'C10'
LEVEL = 'exploration'
RULE = ('one evaluation = one driver life with a seeded history of call_out / remove_call_out / find_call_out (by name, by handle, '
        'function-pointer form) issued at top level and from inside call_out callbacks, delays on both sides of the 32-slot wheel, '
        'owners destructed before the due time, and tick spacings of 1, 2, 3, 5-90 s incl. stalls with coalesced timer expiries; '
        'checked against a reference scheduler. non-trivial = at least one call_out issued from inside a callback, removed, owner '
        'destructed, delay >= 32 or tick gap > 2 s; distinct = distinct abstract traces (op kinds, delay classes, tick gaps).')
RULE += (' Later additions: in a fifth of the runs the wall clock is set back (1 s to 23 days) or far ahead between ticks; the reference clock is the driver clock made monotonic.')
COMPONENTS = {'real': ['lib/efuns/call_out.c', 'src/backend.c call_heart_beat()', 'src/interpret.c', 'lib/efuns'],
              'stub': ['timer thread (plan tick steps call the real callback)', 'clock (virtual, read by time())', 'kernel sockets (one telnet client types the commands)']}
ASSUMPTIONS = ['the reference clock is the driver clock as seen by LPC time(): due = time() at issue + max(delay, 1)',
               'order among entries due at the same second is not constrained']
DELAYS = (-1, 0, 1, 1, 2, 2, 3, 5, 31, 32, 33, 63, 64, 65, 100)


def gen(rng, tier, i):
    p = Plan()
    p.file('mcfg.h', mcfg({}))
    p.cfg('Port', '4000:telnet')
    p.opt('epoll_seed', rng.randint(1, 1 << 30))
    err_class = rng.random() < 0.25
    clock_steps = rng.random() < 0.2
    nid = [0]
    owners = ['me']
    lines = []

    def cmd(text): p.cycle(send(0, 'do ' + text + '\r\n'))

    p.cycle(connect(0, 0))
    p.cycle('adv 500000')
    cmd('name u0;clone /vobj clk;hb clk 1')
    for k in range(rng.randint(0, 3)):
        cmd('clone /vobj w%d' % k); owners.append('w%d' % k)
    live_ids = []

    def new_co(level=0):
        nid[0] += 1
        cid = 'c%d' % nid[0]
        d = rng.choice(DELAYS) if rng.random() < 0.8 else rng.randint(1, 140)
        seps = [';', ',', '~', '^']
        inner = 'rec F' + cid
        if level < 2 and rng.random() < 0.35:
            parts = ['rec F' + cid]
            for _ in range(rng.randint(1, 2)):
                r = rng.random()
                if r < 0.6: parts.append(new_co(level + 1))
                elif r < 0.8 and live_ids: parts.append('rch ' + rng.choice(live_ids))
                elif live_ids: parts.append('fch ' + rng.choice(live_ids))
            if err_class and rng.random() < 0.5: parts.append('bomb %d err' % nid[0])
            inner = seps[level + 1].join(parts)
        elif err_class and rng.random() < 0.3:
            inner = seps[level + 1].join(['rec F' + cid, 'bomb %d %s' % (nid[0], rng.choice(('err', 'typeerr', 'throw')))])
        form = rng.random()
        live_ids.append(cid)
        if form < 0.5: return 'con %s %d %d %s' % (cid, d, rng.randint(0, 5), inner)
        if form < 0.75: return 'cofp %s %d %s' % (cid, d, inner)
        return 'co %s %d %s' % (cid, d, inner)

    n_ops = rng.randint(3, 30 if tier == 'quick' else 60)
    for _ in range(n_ops):
        r = rng.random()
        if r < 0.35:
            o = rng.choice(owners)
            op = new_co()
            cmd(op if o == 'me' else 'as %s %s' % (o, op.replace('^', '?').replace('~', '^').replace(',', '~').replace(';', ',')) if False else (op if o == 'me' else 'as %s %s' % (o, _down(op))))
        elif r < 0.45 and live_ids:
            cmd('rch ' + rng.choice(live_ids))
        elif r < 0.52 and live_ids:
            cmd('fch ' + rng.choice(live_ids))
        elif r < 0.57:
            o = rng.choice(owners)
            op = rng.choice(('rcn %d', 'fcn %d')) % rng.randint(0, 5)
            cmd(op if o == 'me' else 'as %s %s' % (o, op))
        elif r < 0.62 and len(owners) > 1:
            o = rng.choice(owners[1:]); owners.remove(o)
            # destruct, or reload_object(): both drop every call_out of the object (a reloaded object forgets its tag,
            # so it is not used as an owner again)
            cmd(('dest ' if rng.random() < 0.6 else 'reload ') + o)
        elif r < 0.9:
            g = rng.random()
            if clock_steps and rng.random() < 0.25:
                # somebody sets the wall clock back (a time server correction, a restored snapshot) - or far ahead
                back = rng.random() < 0.75
                n = rng.choice((1, 2, 5, 31, 32, 33, 100, 3600, 2000000))
                p.cycle('adv %d' % ((-n if back else n) * 1000000))
            if g < 0.3: p.cycle(tick(1000000))
            elif g < 0.7: p.cycle(tick(2000000))
            elif g < 0.8: p.cycle(tick(3000000))
            elif g < 0.9: p.cycle(stall(rng.choice((5, 9, 31, 32, 33, 64, 90)) * 1000000, rng.randint(1, 3)))
            else: p.cycle(tick(rng.randint(4, 40) * 1000000))
        else:
            p.idle(1)
    # tail: let everything that can come due, come due
    for _ in range(4): p.cycle(tick(2000000))
    p.cycle(stall(70 * 1000000, 2)); p.cycle(tick(2000000)); p.cycle(stall(80 * 1000000, 1)); p.cycle(tick(2000000)); p.cycle(tick(2000000))
    p.idle(2)
    return p


def _down(op):
    """push a script one nesting level down (it will be passed through sub() once more)"""
    return op.replace('^', '\x00').replace('~', '^').replace(',', '~').replace(';', ',').replace('\x00', '^')


def check(plan, res):
    v = generic_crash_violations(PROP, res)
    if v: return v
    evs = res.events
    # The reference clock is the driver clock as LPC sees it, made monotonic: when the wall clock is set back by D seconds the
    # reference stands still for that step and runs on from there (a call_out is owed its delay in seconds that passed, and
    # no tick with that many seconds passed may go by without it).  mono[idx] = reference time of the record at idx.
    mono = {}; prevT = None; off = 0
    for idx, e in enumerate(evs):
        if e.kind != 'R': continue
        m = re.search(r' t=(\d+)', e.rest)
        if not m: continue
        T = int(m.group(1))
        if prevT is not None and T < prevT: off += prevT - T
        prevT = T; mono[idx] = T + off
    # tick times: every tick step cycle -> driver time as reported by the clock object's heart beat (or any record in that cycle)
    ticks = []      # (event idx of first record in the tick cycle, cycle, T)
    tick_cycles = set(e.cycle for e in evs if e.kind == 'step' and re.match(r'&?step (tick|stall) ', e.rest))
    seen = set()
    for idx, e in enumerate(evs):
        if e.kind == 'R' and e.cycle in tick_cycles and e.cycle not in seen:
            m = re.search(r' t=(\d+)', e.rest)
            w = e.rest.split(' ')
            if m and w[0] in ('HB', 'CO'):
                ticks.append((idx, e.cycle, mono[idx])); seen.add(e.cycle)
    entries = {}    # id -> dict
    order = []
    gone = {}       # owner tag -> event idx of destruct
    errs = set()
    for idx, e in enumerate(evs):
        if e.kind != 'R': continue
        w = e.rest.split(' ')
        kv = dict(t.split('=', 1) for t in w if '=' in t)
        if w[0] == 'COSET':
            d = int(kv['d']); t0 = mono[idx]
            entries[w[2]] = {'owner': w[1], 'id': w[2], 'due': t0 + max(d, 1), 'd': d, 't0': t0, 'idx': idx, 'cycle': e.cycle, 'handle': int(kv['h']),
                             'fn': kv.get('fn', 'x'), 'fires': [], 'removed': None, 'ambig': False, 'incb': False}
            order.append(w[2])
        elif w[0] == 'CO':
            if w[2] in entries: entries[w[2]]['fires'].append((idx, e.cycle, mono[idx]))
            else: v.append(Violation(PROP, 'phantom', 'call_out %s fired but was never scheduled' % w[2], PROP + '/fired/never-scheduled'))
        elif w[0] in ('DEST', 'QUIT', 'RELOAD') and len(w) > 1:
            gone.setdefault(w[1], idx)
    # which COSETs happened inside a call_out callback (between a CO record and the end of that evaluation)?
    # -> used only for the evidence probes
    # removals and queries
    for idx, e in enumerate(evs):
        if e.kind != 'R': continue
        w = e.rest.split(' ')
        kv = dict(t.split('=', 1) for t in w if '=' in t)
        if w[0] in ('RCO', 'FCO'):
            en = entries.get(w[2]); ret = int(kv['ret']); tc = mono[idx]
            if ret == -99999: continue
            pending = en is not None and en['idx'] < idx and en['removed'] is None and not any(f[0] < idx for f in en['fires']) \
                and not (en['owner'] in gone and gone[en['owner']] < idx and False)
            if en is None: continue
            if en['ambig']: continue
            owner_gone = en['owner'] in gone and gone[en['owner']] < idx
            if pending:
                if owner_gone and ret == -1:
                    pass       # entries of destructed objects may already be gone
                elif ret == -1 and en['due'] - tc == -1:
                    # one second overdue inside a backlog sweep: "-1 seconds left" and "not found" read the same
                    if w[0] == 'RCO': en['ambig'] = True
                    continue
                elif ret != en['due'] - tc:
                    v.append(Violation(PROP, 'time-left', '%s of %s (delay %d set at t=%d) at t=%d returned %d, expected %d' %
                                       ('remove_call_out' if w[0] == 'RCO' else 'find_call_out', w[2], en['d'], en['t0'], tc, ret, en['due'] - tc),
                                       PROP + '/time-left/' + ('wrong' if ret != -1 else 'not-found')))
                if w[0] == 'RCO' and ret != -1: en['removed'] = idx
            else:
                if ret != -1:
                    v.append(Violation(PROP, 'time-left', '%s of %s which is not pending returned %d' % (w[0], w[2], ret), PROP + '/time-left/found-but-not-pending'))
        elif w[0] in ('RCN', 'FCN'):
            ret = int(kv['ret']); tc = mono[idx]
            cands = [en for en in entries.values() if en['owner'] == w[1] and en['fn'] == w[2] and en['idx'] < idx and en['removed'] is None
                     and not any(f[0] < idx for f in en['fires'])]
            if any(en['ambig'] for en in cands):
                # an earlier "-1" may have been "removed with one second overdue": nothing is known about that entry any more,
                # so a removal by name may have taken any of the candidates
                if w[0] == 'RCN' and ret != -1:
                    for en in cands: en['ambig'] = True
                continue
            if len(cands) == 1:
                en = cands[0]
                if ret == -1 and en['due'] - tc == -1:
                    if w[0] == 'RCN': en['ambig'] = True
                    continue
                if ret != en['due'] - tc:
                    v.append(Violation(PROP, 'time-left', '%s by name of %s at t=%d returned %d, expected %d' % (w[0], en['id'], tc, ret, en['due'] - tc),
                                       PROP + '/time-left/by-name-wrong'))
                if w[0] == 'RCN' and ret != -1: en['removed'] = idx
            elif len(cands) == 0:
                if ret != -1:
                    v.append(Violation(PROP, 'time-left', '%s by name %s with nothing pending returned %d' % (w[0], w[2], ret), PROP + '/time-left/found-but-not-pending'))
            else:
                if w[0] == 'RCN' and ret != -1:
                    for en in cands: en['ambig'] = True
    if not ticks:
        return v
    last_T = ticks[-1][2]
    for cid in order:
        en = entries[cid]
        if en['ambig']: continue
        fires = en['fires']
        if len(fires) > 1:
            v.append(Violation(PROP, 'repeat', 'call_out %s fired %d times' % (cid, len(fires)), PROP + '/fired/more-than-once')); continue
        if en['removed'] is not None:
            if fires and fires[0][0] > en['removed']:
                v.append(Violation(PROP, 'removed-fired', 'call_out %s fired after remove_call_out returned %s' % (cid, 'success'), PROP + '/fired/after-removal'))
            continue
        owner_gone = en['owner'] in gone
        # expected tick: first tick after the issue whose time >= due
        exp = next(((ti, tc, T) for ti, tc, T in ticks if ti > en['idx'] and T >= en['due']), None)
        if owner_gone:
            if fires and fires[0][0] > gone[en['owner']]:
                v.append(Violation(PROP, 'destructed-fired', 'call_out %s of destructed (or reloaded) object %s fired' % (cid, en['owner']), PROP + '/fired/owner-destructed'))
            if exp is None or gone[en['owner']] < exp[0]: continue
        if fires:
            fi, fc, fT = fires[0]
            if fT < en['due']:
                v.append(Violation(PROP, 'early', 'call_out %s (delay %d set at t=%d, due %d) fired at t=%d' % (cid, en['d'], en['t0'], en['due'], fT), PROP + '/fired/early'))
            elif exp is not None and fc != exp[1]:
                late = fT - exp[2]
                v.append(Violation(PROP, 'late', 'call_out %s (delay %d set at t=%d, due %d) fired at t=%d; the first tick at or after its time was at t=%d' %
                                   (cid, en['d'], en['t0'], en['due'], fT, exp[2]), PROP + '/fired/late' + ('-32' if late in (32, 64) else '')))
        else:
            if exp is not None and not owner_gone:
                v.append(Violation(PROP, 'lost', 'call_out %s (delay %d set at t=%d, due %d) never fired although ticks ran until t=%d' % (cid, en['d'], en['t0'], en['due'], last_T),
                                   PROP + '/fired/never'))
    return v


def summarize(plan, res):
    kinds = []; nontriv = False
    incb = False
    for e in res.events:
        if e.kind == 'cycle': incb = False
        if e.kind == 'R':
            w = e.rest.split(' ')
            if w[0] == 'CO': incb = True; kinds.append('F')
            elif w[0] == 'COSET':
                d = int(dict(t.split('=', 1) for t in w if '=' in t)['d'])
                kinds.append(('S' if not incb else 's') + ('0' if d < 1 else '1' if d < 31 else '2' if d < 34 else '3'))
                if incb or d >= 31: nontriv = True
            elif w[0] in ('RCO', 'RCN', 'FCO', 'FCN', 'DEST'): kinds.append(w[0][0:2]); nontriv = True
        elif e.kind == 'step' and ' tick ' in e.rest:
            dt = int(e.rest.split(' ')[-1]) // 1000000; kinds.append('T%d' % min(dt, 9))
            if dt > 2: nontriv = True
        elif e.kind == 'step' and ' stall ' in e.rest: kinds.append('ST'); nontriv = True
    probes = {'set_inside_callback': sum(1 for k in kinds if k[0] == 's'), 'delay_ge_31': sum(1 for k in kinds if k[0] in 'sS' and k[1] in '23')}
    return {'nontrivial': nontriv, 'abstract': hashlib.sha256(' '.join(kinds).encode()).hexdigest()[:16], 'probes': probes}
