# C09 - no event history or failing task takes the driver down.
# Engine W-loop: real backend()/comm.c/error handling under the simulated kernel, clock and timer.
import re
from ..core import Plan, Violation, generic_crash_violations, spin_violations, enc, dec
from ..world import *

PROP = 'C09'
LEVEL = 'exploration'
RULE = ('one evaluation = one simulated driver life (boot, plan of external events, quiescence tail, shutdown) generated from '
        'the run seed: ticks, stalls, connects, partial/complete input, EOF/reset at any step, console lines, LPC error bombs in '
        'each task kind and instruction-level injected errors. non-trivial = the run executed at least one fault (bomb, injected '
        'error, disconnect, failing master callback); distinct = distinct abstract traces (sequence of record kinds and fault '
        'sites with payloads, names and times dropped).')
RULE += (' Later additions: the wall clock set back between ticks in a seventh of the runs (timers judged on a monotonic clock); scenario class flood: one user types ahead 4-40 failing commands while the timer ticks, and a tick cycle whose only failing task is a user command still serves the heart beat of a healthy object; accept() failing with EMFILE or EINTR for a few calls while a connection waits in the queue; reads interrupted by EINTR.')
COMPONENTS = {'real': ['src/backend.c', 'src/comm.c', 'src/simulate.c', 'src/error_context.c', 'src/interpret.c', 'lib/efuns', 'lib/lpc',
                       'lib/async/async_runtime_epoll.c', 'lib/async/async_queue.c'],
              'stub': ['lib/port/timer.cpp (timer thread = plan tick steps calling the real callback)',
                       'lib/async/console_worker.c (worker thread = plan console steps calling real enqueue+post_completion)',
                       'kernel sockets/epoll/eventfd/clock (simulated)']}
ASSUMPTIONS = ['kernel model: level-triggered epoll, stream sockets with explicit recv segmentation and send result scripts',
               'process crash / sanitizer report / fatal() / early return from backend() count as "driver down"']

EH_MODES = ('ok', 'ok', 'ok', 'raise', 'raise2', 'absent')


def _bomb(st, kind):
    st['nb'] += 1
    return st['nb']


def gen_flood(rng, tier, i):
    """one user types ahead a long run of commands that all fail; meanwhile the timer ticks: the other user, the heart beats
    and the call_outs are owed their service in every one of those cycles (the failing task is the command, nothing else)"""
    p = Plan()
    p.file('mcfg.h', mcfg({}))
    p.opt('epoll_seed', rng.randint(1, 1 << 30))
    p.cfg('Port', '4000:telnet')
    p.meta['flood'] = True
    p.cycle(connect(0, 0)); p.cycle(connect(0, 1))
    p.cycle(send(0, 'do name u0;clone /vobj clk;hb clk 1\r\n'))
    p.cycle(send(1, 'do name u1\r\n'))
    p.cycle(tick())
    n = rng.randint(4, 40)
    how = rng.choice(('err', 'typeerr', 'throw'))
    d = rng.choice((1, 2, 3, 5))
    p.cycle(send(0, 'do co kf %d rec fired\r\n' % d))
    p.cycle(send(1, ''.join('do bomb %d %s\r\n' % (900 + k, how) for k in range(n))))
    for k in range(n + 4):
        p.cycle(tick())
        if rng.random() < 0.3: p.cycle(send(0, 'do rec ping%d\r\n' % k))
    p.idle(2)
    return p


def _flood_check(plan, res):
    v = []
    evs = res.events
    tick_cycles = sorted(set(e.cycle for e in evs if e.kind == 'step' and re.match(r'&?step (tick|stall) ', e.rest)))
    by_cycle = {}
    for e in evs: by_cycle.setdefault(e.cycle, []).append(e)
    first_bomb = next((e.cycle for e in evs if e.kind == 'R' and re.match(r'U \S+ B9\d\d', e.rest)), None)
    if first_bomb is None: return v
    # (the rule speaks about an object that is known to beat: it has been seen beating before the first command failed)
    if not any(e.kind == 'R' and e.rest.startswith('HB clk ') and e.cycle < first_bomb for e in evs): return v
    for c in tick_cycles:
        if c < first_bomb: continue
        ce = by_cycle.get(c, [])
        errs = [e.rest for e in ce if e.kind == 'R' and e.rest.startswith('ERR ')]
        if not errs or not all('trace=cmd_do@' in x for x in errs): continue
        if not any(e.kind == 'R' and e.rest.startswith('HB clk ') for e in ce):
            v.append(Violation(PROP, 'starved', 'timer tick in cycle %d: a user command failed (%s) and the heart beat of the healthy object clk was not served in that cycle' % (c, errs[0][:90]),
                               PROP + '/liveness/failing-commands-starve-heart-beats'))
            break
    return v


def gen(rng, tier, i):
    if rng.random() < 0.06: return gen_flood(rng, tier, i)
    p = Plan()
    console_mode = rng.random() < 0.3
    kind = rng.choice(('telnet', 'telnet', 'ascii'))
    eh = rng.choice(EH_MODES)
    defs = {}
    if eh == 'raise': defs['EH_RAISE'] = '1'
    elif eh == 'raise2': defs['EH_RAISE'] = '2'
    elif eh == 'absent': defs['NO_ERROR_HANDLER'] = '1'
    if kind == 'ascii':
        defs['USER_PROCESS_INPUT'] = '1'; defs['ASCII_PORT'] = '4000'
    elif rng.random() < 0.3:
        defs['USER_PROCESS_INPUT'] = '1'
    st = {'nb': 0}
    # callbacks that bomb, swarm-selected
    if rng.random() < 0.15: defs['CONNECT_ERROR'] = '(n_conn == %d)' % rng.randint(1, 3)
    if rng.random() < 0.15: defs['LOGON_SCRIPT'] = lpc_str('bomb %d err' % _bomb(st, 'logon'))
    if rng.random() < 0.2: defs['NETDEAD_SCRIPT'] = lpc_str('bomb %d err' % _bomb(st, 'net_dead'))
    if 'USER_PROCESS_INPUT' in defs and rng.random() < 0.15: defs['PI_SCRIPT'] = lpc_str('bomb %d err' % _bomb(st, 'pi'))
    if rng.random() < 0.1: defs['WRITE_PROMPT_SCRIPT'] = lpc_str('bomb %d err' % _bomb(st, 'prompt'))
    # preloaded objects (loaded by the master's epilog/preload before backend() starts): their heart beats run in the
    # driver's very first tick, before any connection exists
    if rng.random() < 0.2:
        pre = []
        for k in range(rng.randint(1, 3)):
            how = rng.choice(('err', 'err', 'typeerr', 'throw', 'forever'))
            r = rng.random()
            hb = 'bomb %d %s' % (_bomb(st, 'prehb'), how) if r < 0.6 else 'rec prehb'
            cr = 'bomb %d err' % _bomb(st, 'precreate') if rng.random() < 0.2 else 'rec precreate'
            p.file('pre%d.c' % k, 'inherit "/vobj";\nvoid create() { ::create(); set_tag("p%d"); set_script("hb", "%s"); set_hb(1); run("%s"); }\n' % (k, hb, cr))
            pre.append('"/pre%d"' % k)
        defs['PRELOAD_LIST'] = '({ ' + ', '.join(pre) + ' })'
    p.file('mcfg.h', mcfg(defs))
    p.opt('epoll_seed', rng.randint(1, 1 << 30))
    if console_mode:
        p.opt('console', 1)
        p.opt('tty', 1)
    if not console_mode or rng.random() < 0.5:
        p.cfg('Port', '4000:' + kind)
        has_net = True
    else:
        has_net = False
    storm = rng.random() < (0.02 if tier == 'quick' else 0.04)
    small_budget = storm or rng.random() < 0.3
    if small_budget:      # (a storm of a thousand failing tasks, some of them never-ending, needs a small budget per task)
        p.cfg('MaxEvaluationCost', rng.choice((2000, 5000, 20000)))
    if rng.random() < 0.3:
        p.cfg('MaxCallDepth', rng.choice((12, 20, 30)))
    fast_reset = rng.random() < 0.25
    if fast_reset:
        p.cfg('ResetDuration', 4); p.cfg('CleanupDuration', 2)
    use_inject = eh in ('ok',) and rng.random() < 0.6
    if use_inject and rng.random() < 0.5:
        p.opt('fault_exempt_master', 1)
    enabled = set(k for k in ('tick', 'connect', 'cmd', 'partial', 'close', 'bombcmd', 'hb', 'co', 'inputto', 'vobj', 'stall', 'quit', 'limit', 'nf', 'exec', 'snoop', 'telneg')
                  if rng.random() < 0.7)
    enabled.add('tick')
    if has_net: enabled.add('connect')
    EOL = nl(kind)
    conns = {}     # cid -> dict(alive, partial)
    next_cid = [0]
    ntag = [0]

    def line(cid, text, segs=None):
        data = text + EOL
        if segs is None and rng.random() < 0.3:
            segs = rand_segs(rng, len(data))
        return send(cid, data, segs)

    def cons(text):
        return console(text + '\n')

    def say(target, text):
        if target != 'con' and rng.random() < 0.03: p.cycle('recvintr %d 1' % target)      # the next read of this connection is interrupted (EINTR)
        return cons(text) if target == 'con' else line(target, text)

    def new_conn():
        cid = next_cid[0]; next_cid[0] += 1
        conns[cid] = {'alive': True, 'partial': False}
        # (now and then the process is out of descriptors, or accept() is interrupted, when the connection arrives: it waits in
        # the queue and everybody else is served meanwhile)
        if rng.random() < 0.04: p.cycle('acceptfail %d%s' % (rng.randint(1, 5), rng.choice(('', ' eintr'))))
        p.cycle(connect(0, cid))
        if rng.random() < 0.8:
            p.cycle(line(cid, 'do name u%d' % cid))
        return cid

    def targets():
        t = [c for c in conns if conns[c]['alive'] and not conns[c]['partial']]
        if console_mode: t.append('con')
        return t

    def bomb_script(kindname):
        b = _bomb(st, kindname)
        # (a never-ending script in a hook that runs for every message - receive_snoop - with the default budget of a million
        # ticks per call would use up the run's instruction budget, not the driver's)
        endless_ok = 'limit' in enabled and not (kindname == 'snoop' and not small_budget)
        how = rng.choice(('err', 'err', 'typeerr', 'forever', 'deepforever', 'throw')) if endless_ok else rng.choice(('err', 'err', 'typeerr', 'throw'))
        return 'bomb %d %s' % (b, how)

    if console_mode:
        p.cycle(cons('do name con'))
    clock_steps = rng.random() < 0.15
    n_body = rng.randint(3, 25 if tier == 'quick' else 40)
    for _ in range(n_body):
        acts = [a for a in enabled]
        a = rng.choice(sorted(acts))
        t = targets()
        if a == 'tick':
            if clock_steps and rng.random() < 0.3: p.cycle('adv %d' % (rng.choice((-1, -2, -31, -3600, -2000000)) * 1000000))     # the wall clock is set back
            p.cycle(tick(rng.choice((TICK, TICK, TICK, 1000000, 3000000, 5000000))))
        elif a == 'stall':
            p.cycle(stall(rng.choice((4, 10, 70, 901)) * 1000000, rng.randint(1, 3)))
        elif a == 'connect' and has_net:
            if len(conns) < 6: new_conn()
        elif not t:
            if has_net and len(conns) < 6: new_conn()
            else: p.cycle(tick())
        elif a == 'cmd':
            c = rng.choice(t)
            p.cycle(say(c, rng.choice(('do echo hi%d' % rng.randint(0, 99), 'look', 'do rec x', 'do flush', 'do cmd look'))))
        elif a == 'partial':
            c = rng.choice(t)
            if c != 'con':
                conns[c]['partial'] = True
                p.cycle(send(c, 'do echo par'))
                if rng.random() < 0.6:
                    p.cycle(send(c, 'tial' + EOL)); conns[c]['partial'] = False
        elif a == 'close':
            c = rng.choice(t)
            if c != 'con':
                conns[c]['alive'] = False
                steps = []
                if rng.random() < 0.5:
                    steps.append(send(c, rng.choice(('do echo last' + EOL, 'do ech', 'do ' + bomb_script('cmd') + EOL))))
                steps.append(rng.choice((eof(c), rst(c))))
                p.cycle(*steps)
        elif a == 'bombcmd':
            c = rng.choice(t)
            p.cycle(say(c, 'do ' + bomb_script('cmd')))
        elif a == 'hb':
            c = rng.choice(t)
            r = rng.random()
            if r < 0.4: p.cycle(say(c, 'do hb me 1'))
            elif r < 0.7:
                # a heart beat that fails - sometimes after switching itself off first (then nothing is left to switch off,
                # and the driver must still forget which heart beat was running)
                pre = 'hb me 0,' if rng.random() < 0.4 else ''
                p.cycle(say(c, 'do sc me hb ' + pre + bomb_script('hb').replace(';', ',') + ';hb me 1'))
                if pre and rng.random() < 0.7:
                    p.cycle(tick()); p.cycle(say(c, 'do hb me 1')); p.cycle(say(rng.choice(t), 'do ' + bomb_script('cmd')))
            else: p.cycle(say(c, 'do hb me 0'))
        elif a == 'co':
            c = rng.choice(t)
            cid_ = _bomb(st, 'coid')
            if rng.random() < 0.3:
                # several call_outs due in the same second, a failing one among them (queued first, in the middle or last)
                d = rng.choice((0, 1, 2, 3)); n = rng.randint(2, 4); bad = rng.randrange(n)
                parts = []
                for q in range(n):
                    parts.append('co k%d %d %s' % (cid_, d, bomb_script('co').replace(';', ',') if q == bad else 'rec fired'))
                    if q < n - 1: cid_ = _bomb(st, 'coid')
                p.cycle(say(c, 'do ' + ';'.join(parts)))
            elif rng.random() < 0.5:
                p.cycle(say(c, 'do co k%d %d rec fired' % (cid_, rng.choice((0, 1, 2, 3, 5)))))
            else:
                p.cycle(say(c, 'do co k%d %d %s' % (cid_, rng.choice((0, 1, 2, 3)), bomb_script('co').replace(';', ','))))
        elif a == 'inputto':
            c = rng.choice(t)
            r = rng.random()
            scr = bomb_script('inputto').replace(';', ',') if rng.random() < 0.5 else 'rec got'
            if rng.random() < 0.15:
                # the efun itself fails (no such function): nothing may stay armed on the connection
                p.cycle(say(c, 'do itn %s' % rng.choice(('it', 'gc'))))
            else:
                p.cycle(say(c, 'do %s %d %s' % ('inputto' if r < 0.7 else 'getchar', rng.choice((0, 1, 2)), scr)))
            if rng.random() < 0.8:
                p.cycle(say(c, 'answer%d' % rng.randint(0, 9)))
        elif a == 'vobj':
            c = rng.choice(t)
            ntag[0] += 1
            tg = 'v%d' % ntag[0]
            hookname = rng.choice(('hb', 'hb', 'reset', 'clean_up', 'mod', 'init'))
            scr = bomb_script(hookname).replace(';', ',') if rng.random() < 0.6 else 'rec vhook'
            p.cycle(say(c, 'do clone /vobj %s;sc %s %s %s;hb %s 1' % (tg, tg, hookname, scr, tg)))
            if rng.random() < 0.3:
                p.cycle(say(c, 'do dest %s' % tg))
        elif a == 'quit':
            c = rng.choice(t)
            how = rng.choice(('quit', 'rmi me', 'dest me'))
            if c != 'con': conns[c]['alive'] = False
            p.cycle(say(c, 'do ' + how))
        elif a == 'exec':
            # the connection moves to a fresh user object (exec efun), the old body is destructed: the connection record
            # the backend and comm.c are working on changes its object in the middle of a command
            c = rng.choice(t)
            p.cycle(say(c, 'do exec dest' + (';' + bomb_script('cmd') if rng.random() < 0.3 else '')))
        elif a == 'telneg':
            # telnet sub-negotiation callbacks (terminal type, window size, unknown option) run in the middle of a received
            # packet; they fail, or take the connection away, and a command follows in the same packet
            nets = [x for x in t if x != 'con']
            if nets and kind == 'telnet':
                c = rng.choice(nets)
                hk, sb = rng.choice((('tt', b'\xff\xfa\x18\x00vt100\xff\xf0'), ('ws', b'\xff\xfa\x1f\x00\x50\x00\x18\xff\xf0'), ('so', b'\xff\xfa\x63abc\xff\xf0')))
                what = rng.choice((bomb_script('cmd').replace(';', ','), bomb_script('cmd').replace(';', ','), 'quit', 'dest me', 'rmi me', 'exec dest', 'rec neg'))
                if what in ('quit', 'dest me', 'rmi me'): conns[c]['alive'] = False
                p.cycle(say(c, 'do sc me %s %s' % (hk, what)))
                data = b'do ec' + sb + b'ho mid' + EOL.encode() + b'do echo aftersb' + EOL.encode()
                p.cycle(send(c, data, rand_segs(rng, len(data)) if rng.random() < 0.3 else None))
        elif a == 'snoop':
            # one user snoops another: everything the snooped user is sent or types is handed to the snooper's object from
            # inside add_message() - a callback that may fail, and two connection records that point at each other
            nets = [x for x in t if x != 'con']
            if len(nets) >= 2:
                c, dd = rng.sample(nets, 2)
                r2 = rng.random()
                if r2 < 0.4: p.cycle(say(c, 'do sc me snoop ' + bomb_script('snoop').replace(';', ',')))
                # the snooper reacts to what it sees by removing the user it watches (or itself): the driver is in the middle of
                # handing that user's text around
                elif r2 < 0.6: p.cycle(say(c, 'do sc me snoop ' + rng.choice(('dest u%d' % dd, 'dest me', 'rmi u%d' % dd, 'as u%d quit' % dd))))
                p.cycle(say(c, 'do snoop u%d' % dd))
                p.cycle(say(dd, rng.choice(('do echo snooped%d' % dd, 'look', 'do flush;echo again'))))
                if rng.random() < 0.3: p.cycle(say(c, 'do snoop 0'))
        elif a == 'nf':
            # a failing command whose notify_fail() function runs a script (the driver calls it after every action said no)
            c = rng.choice(t)
            r = rng.random()
            if r < 0.45: scr = bomb_script('nf').replace(';', ',')
            elif r < 0.7: scr = 'rec nfran'
            else:
                # the running notify_fail function registers another message or function (the driver still holds the first)
                inner = rng.choice(('nfs inner', 'nff rec nfran2', 'nfs one,nfs two', 'nff nfs deeper'))
                scr = inner + rng.choice(('', ',' + bomb_script('nf').replace(';', ','), ',rec after'))
            for _ in range(rng.choice((1, 1, 2, 4))):
                p.cycle(say(c, 'nf ' + scr))
        elif a == 'limit':
            c = rng.choice(t)
            p.cycle(say(c, 'do ' + rng.choice(('bomb %d forever' % _bomb(st, 'limit'), 'bomb %d deepforever' % _bomb(st, 'limit'), 'deep 9', 'spend 300'))))
        if use_inject and rng.random() < 0.25:
            p.cycles[-1].insert(0, fault(rng.choice((0, 1, 2, 3, 5, 8, 13, 21, 34, 55, 89, 144, 233)), rng.choice(('error', 'error', 'error', 'evalcost', 'stackroom:%d' % rng.choice((0, 1, 2, 3, 5, 8, 12)), 'stackroom:%d' % rng.choice((0, 1, 2, 4))))))
        if rng.random() < 0.3:
            p.idle(rng.randint(1, 2))
    # "once or repeatedly": now and then one task kind fails more often than any fixed-size driver table has slots
    if storm and targets():
        c = rng.choice(targets())
        kind_s = rng.choice(('nf', 'bombcmd', 'inputto', 'hb'))
        for _ in range(1030):
            if kind_s == 'nf': p.cycle(say(c, 'nf bomb %d err' % _bomb(st, 'storm')))
            elif kind_s == 'bombcmd': p.cycle(say(c, 'do bomb %d err' % _bomb(st, 'storm')))
            elif kind_s == 'inputto':
                p.cycle(say(c, 'do inputto 0 bomb %d err' % _bomb(st, 'storm'))); p.cycle(say(c, 'x'))
            else:
                p.cycle(say(c, 'do sc me hb bomb %d err;hb me 1' % _bomb(st, 'storm'))); p.cycle(tick())
    # quiescence tail: no more faults; survivors must be served, timers must run, a new connection must be accepted
    p.cycle('idle'); p.cycle('idle')
    p.meta['tail_at'] = len(p.cycles)
    for c in sorted(conns):
        if conns[c]['partial']:
            p.cycle(send(c, EOL))
    for c in sorted(conns):
        p.cycle(line(c, 'do echo PING%d' % c, []))
    if console_mode:
        p.cycle(cons('do echo PINGcon'))
    if has_net:
        p.cycle(connect(0, 90))
        p.cycle(line(90, 'do name u90;hb me 1;co kz 1 rec fired;echo PING90', []))
    for _ in range(4):
        p.cycle(tick()); p.idle(2)
    return p


# ---------------------------------------------------------------------------------------------- oracle
def _plan_steps(plan):
    for ci, cyc in enumerate(plan.cycles):
        for s in cyc:
            op, a = parse_step(s)
            yield ci, op, a


def check(plan, res):
    v = generic_crash_violations(PROP, res)
    if v:
        return v
    evs = res.events
    if plan.meta.get('flood'):
        return v + spin_violations(PROP, res, _error_cycles(res)) + _flood_check(plan, res) + _timers_alive(plan, res)
    # the driver keeps running: a connection that the (level-triggered) poll reports readable cycle after cycle without the
    # driver reading it is a busy loop at 100 % CPU in deployment, and that client is never served again
    v += spin_violations(PROP, res, _error_cycles(res))
    text_hdr = '\n'.join(plan.header)
    eh_absent = 'NO_ERROR_HANDLER' in dec(next((h.split(' ')[2] for h in plan.header if h.startswith('file mcfg.h')), '%')).decode('latin-1')
    # ---- every executed bomb and every injected fault is reported
    reports = []   # (event index, text)
    for idx, e in enumerate(evs):
        if e.kind == 'R' and e.rest.startswith('ERR '): reports.append((idx, e.rest))
        elif e.kind == 'D': reports.append((idx, e.rest))
    for idx, e in enumerate(evs):
        if e.kind == 'R':
            w = e.rest.split(' ')
            if w[0] == 'U' and len(w) >= 3 and re.fullmatch(r'B\d+', w[2]):
                b = w[2][1:]
                # which op follows the rec decides what must be reported; every bomb kind ends in an error message
                ok = any(ridx > idx for ridx, txt in reports)
                # an error() bomb carries its own text: that text - not only some later failure of the master's handler -
                # must show up in a report
                first_rep = min((ridx for ridx, txt in reports if ridx > idx), default=None)
                injected = first_rep is not None and any(x.kind == 'fault_fired' for x in evs[idx:first_rep + 1])     # the injected error came first
                if ok and not injected and _bomb_how(plan, b) == 'err' and not any(ridx > idx and re.search(r'bomb %s\b' % b, txt) for ridx, txt in reports):
                    v.append(Violation(PROP, 'unreported', 'bomb %s raised error("bomb %s") but no report shows that message' % (b, b), PROP + '/unreported/original-message-lost'))
                if not ok:
                    # a bomb that is not an error (deep 9 / spend) reports nothing: only flag err-type bombs
                    if True:
                        v.append(Violation(PROP, 'unreported', 'bomb %s executed but no error report followed' % b, PROP + '/unreported/bomb'))
        elif e.kind == 'fault_fired' and 'kind=evalcost' not in e.rest and 'kind=stackroom' not in e.rest:
            ok = any(ridx > idx and 'verif injected fault' in txt for ridx, txt in reports) or \
                 any(ridx > idx and 'Too long evaluation' in txt for ridx, txt in reports)
            if not ok:
                v.append(Violation(PROP, 'unreported', 'injected fault at %s not reported' % e.rest, PROP + '/unreported/injected'))
    # ---- bounded liveness after faults stop: pinged survivors are served
    v += _liveness(plan, res)
    # ---- heart-beat locality
    v += _hb_locality(plan, res)
    # ---- the failing object's heart beat IS switched off; timers keep running
    v += _hb_failing_off(plan, res)
    v += _timers_alive(plan, res)
    return v


def _error_cycles(res):
    """backend cycles in which some task ended in an uncaught error (such a cycle may legitimately cut its remaining work short)"""
    out = set()
    for e in res.events:
        if (e.kind == 'R' and e.rest.startswith('ERR ')) or e.kind == 'fault_fired' or \
           (e.kind == 'D' and ('rror' in e.rest or 'Too long' in e.rest or 'Too deep' in e.rest or 'turned off' in e.rest or '\t*' in e.rest)) or \
           (e.kind == 'R' and re.match(r'U \S+ B\d+', e.rest)):          # a bomb op executed: without a master error_handler only the debug log shows it
            out.add(e.cycle)
    return out


def _hb_failing_off(plan, res):
    """an object whose heart_beat raised an uncaught error must not beat again until somebody re-enables it"""
    v = []
    last_task = None
    failed = {}      # tag -> cycle of failure
    last_do = ''
    for e in res.events:
        if e.kind == 'cycle': last_task = None
        elif e.kind == 'fault_fired':
            # an injected fault can land inside a command that re-enables a heart beat, after the efun and before the
            # HBSET record: from then on nothing is known about which heart beats that command switched on
            if re.search(r'(^|[;,~ ])hb \S+ [1-9]', last_do): failed.clear()
        elif e.kind == 'R':
            w = e.rest.split(' ')
            h = w[0]
            if h == 'DO': last_do = e.rest
            if h == 'HB':
                if w[1] in failed and e.cycle > failed[w[1]]:
                    v.append(Violation(PROP, 'hb-not-off', 'object %s raised an uncaught error in its heart_beat in cycle %d but its heart beat ran again in cycle %d' % (w[1], failed[w[1]], e.cycle),
                                       PROP + '/hb/failing-object-not-switched-off'))
                    return v
                last_task = ('HB', w[1])
            elif h == 'HBSET':
                if len(w) > 3 and w[3] != 'q=0': failed.pop(w[1], None)
            elif h == 'U' and len(w) > 2 and re.fullmatch(r'B\d+', w[2]):
                # a bomb op executed: it ends in an uncaught error unless an LPC catch surrounds it (none in C09 plans)
                if last_task and last_task[0] == 'HB' and last_task[1] == w[1]: failed.setdefault(w[1], e.cycle)
            elif h in ('DO', 'CO', 'CMD', 'NF', 'NFCB', 'PI', 'PIB', 'INPUT', 'CHAR', 'LOGON', 'CONNECT', 'NETDEAD', 'RESET', 'CLEANUP', 'MOD', 'CREATE'):
                last_task = (h, w[1] if len(w) > 1 else '')
    return v


def _timers_alive(plan, res):
    """a call_out set by a healthy user must fire once enough error-free ticks have passed"""
    v = []
    evs = res.events
    err_cycles = _error_cycles(res)
    sets = {}; fired = set(); gone = set()
    # the wall clock of the simulation, made monotonic (a plan may set it back): seconds that passed
    # (the driver notices a step when it next looks at the clock in its call_out code - at the first tick whose call_outs are
    # served, i.e. the first tick cycle without an error; what passed between the step and that look is lost to it, and to this
    # reference too)
    msec = {}; prev = None; off = 0; frozen = None; stepped = False
    tick_cyc = set(e.cycle for e in evs if e.kind == 'step' and re.match(r'&?step (tick|stall) ', e.rest))
    for e in evs:
        if prev is not None and e.vus < prev:
            off += prev - e.vus; frozen = e.vus + off; stepped = True
        prev = e.vus
        if frozen is not None:
            off = frozen - e.vus                                   # the clock stands still ...
            if e.kind == 'cycle' and (e.cycle - 1) in tick_cyc and (e.cycle - 1) not in err_cycles:
                frozen = None                                      # ... until a tick has been served to its end
        msec[id(e)] = 1000000000 + (e.vus + off) // 1000000
    for e in evs:
        if e.kind == 'R':
            w = e.rest.split(' ')
            # every call_out of every object that stays: the CO record is written when the callback starts, whatever it does then
            if w[0] == 'COSET' and len(w) > 2:
                kv = dict(t.split('=', 1) for t in w if '=' in t)
                # (after a clock step the driver's time() is no reference any more: count from the moment of the call, which is
                # never earlier than the driver's own idea of now)
                sets[(w[1], w[2])] = (e.cycle, (msec[id(e)] + 1 if stepped else int(kv['t'])) + max(int(kv['d']), 1))
            elif w[0] == 'CO' and len(w) > 2: fired.add((w[1], w[2]))
            elif w[0] in ('QUIT', 'DEST', 'EXEC', 'EXECD', 'NETDEAD', 'RELOAD') and len(w) > 1: gone.add(w[1])
    # an injected fault can stop a callback before it has written its record: the error report then names co_fire as the
    # outermost frame; which call_out of that object it was cannot be told, so that object's call_outs are not judged
    for i, e in enumerate(evs):
        if e.kind == 'fault_fired':
            if not any(x.kind == 'R' and x.rest.startswith('ERR ') and x.cycle == e.cycle for x in evs[i + 1:i + 12]):
                # the fault was reported on the debug log only (the master's handler failed under the same shortage): where
                # it struck is unknown, so call_outs that were due by then are not judged
                t_now = msec[id(e)]
                for key, (cyc0, due0) in list(sets.items()):
                    if due0 <= t_now: fired.add(key)
            for x in evs[i + 1:i + 12]:
                if x.cycle != e.cycle: break
                m = re.search(r'object=(\S+) .*trace=co_?f\w*@', x.rest) if x.kind == 'R' and x.rest.startswith('ERR ') else None
                if m:
                    gone.add(m.group(1))
                    # (the object may be known to the records under a tag that its NAME record - lost to an earlier fault -
                    # never announced: whatever was due by now is not judged)
                    t_now = msec[id(e)]
                    for key, (cyc0, due0) in list(sets.items()):
                        if due0 <= t_now: fired.add(key)
    for e in evs:       # objects appear under their tag once they have one
        if e.kind == 'R' and e.rest.startswith('NAME '):
            w = e.rest.split(' ')
            if len(w) > 2 and w[2] in gone: gone.add(w[1])
    for (who, cid), (cyc, due) in sets.items():
        if (who, cid) in fired or who in gone or who.split('#')[0] in gone: continue
        # an error-free tick at or after the due time?
        for e in evs:
            if e.kind == 'step' and re.match(r'&?step (tick|stall) ', e.rest) and e.cycle > cyc and e.cycle not in err_cycles:
                t = msec[id(e)]
                nxt = [x for x in evs if x.cycle == e.cycle and x.kind == 'eventfd_read']
                if nxt: t = msec[id(nxt[0])]
                if t >= due + 1:
                    v.append(Violation(PROP, 'timers', 'call_out %s of %s (due t=%d) did not fire in the error-free tick of cycle %d (t=%d)' % (cid, who, due, e.cycle, t),
                                       PROP + '/liveness/call_out-never-fires'))
                    break
    return v


def _bomb_how(plan, b):
    """how bomb number b fails (err, typeerr, throw, forever, deepforever), from the plan text; None if not found"""
    pat = re.compile(r'bomb %s (err|typeerr|forever|deepforever|throw)\b' % b)
    texts = [dec(h.split(' ')[2]).decode('latin-1') for h in plan.header if h.startswith('file ')]
    for ci, op, a in _plan_steps(plan):
        if op in ('send', 'console'): texts.append(dec(a[1] if op == 'send' else a[0]).decode('latin-1'))
    for t in texts:
        m = pat.search(t)
        if m: return m.group(1)
    return None


def _bomb_is_error(plan, b):
    pat = re.compile(r'rec B%s[;,](err|typeerr|forever|deepforever|throw)' % b)
    for h in plan.header:
        if h.startswith('file mcfg.h') and pat.search(dec(h.split(' ')[2]).decode('latin-1')): return True
    for ci, op, a in _plan_steps(plan):
        if op in ('send', 'console'):
            txt = dec(a[1] if op == 'send' else a[0]).decode('latin-1')
            if pat.search(txt): return True
    return False


def _liveness(plan, res):
    v = []
    ncyc = len(plan.cycles)
    closed = set(); sent = {}
    pings = []  # (cycle idx, cid or 'con')
    need_at = {}
    hdr = dec(next((h.split(' ')[2] for h in plan.header if h.startswith('file mcfg.h')), '%')).decode('latin-1')
    for ci, op, a in _plan_steps(plan):
        if op in ('eof', 'rst'): closed.add(int(a[0]))
        elif op == 'sendscript' and re.search(r'(^|,)[er](,|$)', a[1]): closed.add(int(a[0]))
        elif op == 'send':
            cid = int(a[0]); data = dec(a[1])
            m = re.search(rb'do echo PING(\d+)\r?\n$', data)
            prev = sent.get(cid, b'')
            if m and int(m.group(1)) == cid and (prev == b'' or prev.endswith(b'\n')) and data.startswith(b'do echo PING'):
                pings.append((ci, cid)); need_at[(ci, cid)] = len(prev) + len(data)
            sent[cid] = prev + data
        elif op == 'console':
            if dec(a[0]) == b'do echo PINGcon\n': pings.append((ci, 'con'))
    if not pings:
        return v
    # users that are expected to be alive: named, never destructed/disconnected by script, connection not closed by the plan
    names = {}    # tag -> event idx of NAME
    gone = set()
    for e in res.events:
        if e.kind == 'R':
            w = e.rest.split(' ')
            if w[0] == 'NAME': names[w[1]] = True; gone.discard(w[1])
            elif w[0] in ('QUIT', 'DEST', 'RMI', 'NETDEAD') and len(w) > 1: gone.add(w[1])
            elif w[0] == 'EXEC' and len(w) > 1: gone.add(w[1])       # the connection is on a body that has no actions yet ...
            elif w[0] == 'EXECD' and len(w) > 1: gone.discard(w[1])  # ... until the harness has set it up (a fault may land in between)
    tx = res.tx()
    cons_tx = b''.join(bytes.fromhex(e.rest) for e in res.events if e.kind == 'cons_tx' and e.rest != '-')
    inputs = ' '.join(e.rest for e in res.events if e.kind == 'R' and e.rest.split(' ')[0] in ('INPUT', 'CHAR'))
    bombed_cb = any(k in hdr for k in ('LOGON_SCRIPT', 'PI_SCRIPT', 'WRITE_PROMPT_SCRIPT', 'CONNECT_ERROR'))
    # faults must have stopped: every armed injection fired, and no fault/bomb at or after the ping's cycle
    last_fault = 0
    armed = sum(1 for ci, op, a in _plan_steps(plan) if op == 'fault')
    fired = 0
    for e in res.events:
        if e.kind == 'fault_fired': fired += 1; last_fault = max(last_fault, e.cycle)
        elif e.kind == 'R' and re.match(r'U \S+ B\d+', e.rest): last_fault = max(last_fault, e.cycle)
        elif e.kind == 'R' and e.rest.startswith('ERR '): last_fault = max(last_fault, e.cycle)
    # the ping counts from the cycle in which its last byte reached the driver (earlier segmented sends queue ahead of it)
    got = {}; arrived = {}
    last_cycle = max((e.cycle for e in res.events), default=0)
    for e in res.events:
        if e.kind == 'recv':
            m = re.match(r'conn=(\d+) n=(\d+)', e.rest)
            if not m: continue
            c = int(m.group(1)); got[c] = got.get(c, 0) + int(m.group(2))
            for (pci, pc), n in need_at.items():
                if pc == c and (pci, pc) not in arrived and got[c] >= n: arrived[(pci, pc)] = e.cycle
    for ci, cid in pings:
        if ncyc - ci < 4:      # bounded liveness needs its window
            continue
        if cid != 'con' and ((ci, cid) not in arrived or last_cycle - arrived[(ci, cid)] < 3):
            continue
        if fired < armed or last_fault >= ci + 1:
            continue
        tag = 'con' if cid == 'con' else 'u%d' % cid
        if cid != 'con' and cid in closed: continue
        if tag not in names or tag in gone: continue
        if bombed_cb: continue   # the user's own connection callbacks fail by construction: not a survivor
        out = cons_tx if cid == 'con' else bytes(tx.get(cid, b''))
        want = ('PING%s' % cid).encode()
        # a pending input_to/get_char legitimately receives the line instead
        if want in out or ('PING%s' % cid) in inputs or _char_mode_consumed(res, tag):
            continue
        v.append(Violation(PROP, 'starved', 'surviving user %s got no service for a command sent %d cycles before the end' % (tag, ncyc - ci),
                           PROP + '/liveness/user-not-served'))
    return v


def _char_mode_consumed(res, tag):
    return any(e.kind == 'R' and e.rest.startswith('CHAR ' + tag + ' ') for e in res.events)


def _hb_locality(plan, res):
    """objects whose heart beat is on and that never failed must keep beating on every tick of the tail"""
    v = []
    evs = res.events
    # tick cycles of the run (cycle numbers in which a tick step executed)
    tick_cycles = [e.cycle for e in evs if e.kind == 'step' and re.match(r'&?step (tick|stall) ', e.rest)]
    if len(tick_cycles) < 3:
        return v
    state = {}   # tag -> dict(on, failed, gone)
    last_task = None
    beats = {}   # tag -> list of cycles
    for e in evs:
        if e.kind == 'R':
            w = e.rest.split(' ')
            h = w[0]
            if h == 'HBSET':
                st = state.setdefault(w[1], {'on': False, 'failed': False, 'gone': False, 'since': e.cycle})
                st['on'] = w[3] != 'q=0'; st['since'] = e.cycle
                if st['on']: st['failed'] = False
            elif h == 'HB':
                beats.setdefault(w[1], []).append(e.cycle); last_task = ('HB', w[1])
            elif h in ('DO', 'CO', 'CMD', 'NF', 'NFCB', 'PI', 'PIB', 'INPUT', 'CHAR', 'LOGON', 'CONNECT', 'NETDEAD', 'RESET', 'CLEANUP', 'MOD', 'CREATE'):
                last_task = (h, w[1] if len(w) > 1 else '')
            elif h in ('QUIT', 'DEST') and len(w) > 1:
                state.setdefault(w[1], {'on': False, 'failed': False, 'gone': True, 'since': e.cycle})['gone'] = True
            elif h == 'ERR':
                if last_task and last_task[0] == 'HB' and last_task[1] in state: state[last_task[1]]['failed'] = True
        elif e.kind == 'D' and ('rror' in e.rest or 'turned off' in e.rest or 'Too long' in e.rest):
            if last_task and last_task[0] == 'HB' and last_task[1] in state: state[last_task[1]]['failed'] = True
        elif e.kind == 'fault_fired':
            if last_task and last_task[0] == 'HB' and last_task[1] in state: state[last_task[1]]['failed'] = True
            # a fault can land in the first instructions of a task before its first record: be conservative
            for st in state.values(): st['maybe'] = True
        elif e.kind == 'cycle':
            last_task = None
    # an uncaught error inside a heart beat ends that tick's round early (the property only promises that the
    # innocent objects' heart beats are not switched off), so only error-free tick cycles are judged
    err_cycles = _error_cycles(res)
    clean = [c for c in tick_cycles if c not in err_cycles][-2:]
    inj = any(e.kind == 'fault_fired' for e in evs)
    for tag, st in state.items():
        if not st['on'] or st['gone'] or st['failed']: continue
        if inj: continue   # attribution by records is not exact under instruction-level injection
        for tc in clean:
            if st['since'] >= tc: continue
            if tc not in beats.get(tag, []):
                v.append(Violation(PROP, 'hb-locality', 'object %s has its heart beat enabled, never failed, but did not beat in error-free tick cycle %d' % (tag, tc),
                                   PROP + '/hb/innocent-object-stopped'))
                break
    return v


def summarize(plan, res):
    kinds = []
    nfault = 0
    for e in res.events:
        if e.kind == 'R':
            w = e.rest.split(' ')
            k = w[0]
            if k == 'U' and len(w) > 2 and w[2].startswith('B'): k = 'BOMB'; nfault += 1
            if k == 'ERR': k = 'ERR' + (w[1] if len(w) > 1 else '')
            kinds.append(k)
        elif e.kind == 'fault_fired':
            kinds.append('FAULT@' + e.kv().get('prog', '?')); nfault += 1
        elif e.kind in ('close', 'accept'):
            kinds.append(e.kind)
        elif e.kind == 'recv' and ('eof' in e.rest or 'rst' in e.rest):
            kinds.append('DISC'); nfault += 1
    import hashlib
    probes = {}
    st = res.stats()
    for e in res.events:
        if e.kind == 'D' and 'heart beat in' in e.rest: probes['hb_turned_off'] = probes.get('hb_turned_off', 0) + 1
        if e.kind == 'D' and 'error in mudlib error handler' in e.rest: probes['error_in_error_handler'] = probes.get('error_in_error_handler', 0) + 1
        if e.kind == 'R' and e.rest.startswith('NETDEAD'): probes['net_dead_called'] = probes.get('net_dead_called', 0) + 1
        if e.kind == 'R' and e.rest.startswith('RESET'): probes['reset_called'] = probes.get('reset_called', 0) + 1
        if e.kind == 'R' and e.rest.startswith('CLEANUP'): probes['clean_up_called'] = probes.get('clean_up_called', 0) + 1
        if e.kind == 'console_in': probes['console_lines'] = probes.get('console_lines', 0) + 1
        if e.kind == 'fault_fired': probes['injected_faults'] = probes.get('injected_faults', 0) + 1
    return {'nontrivial': nfault > 0, 'abstract': hashlib.sha256(' '.join(kinds).encode()).hexdigest()[:16], 'probes': probes}
