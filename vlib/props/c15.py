# C15 - file access is confined to the mudlib and always mediated by the master.
# Engine W-loop with the simulated file layer: every libc file call made while a file efun runs is logged with its path.
import re, hashlib
from ..core import Plan, Violation, generic_crash_violations, enc, dec
from ..world import *

PROP = 'C15'
LEVEL = 'exploration'
RULE = ('one evaluation = one driver life in which a user object calls file efuns (read_file, write_file, rm, rename, cp, link, '
        'mkdir, rmdir, get_dir, stat, file_size, file_length, read_bytes, write_bytes, read_buffer, write_buffer, tail, save_object, '
        'restore_object, dumpallobj, dump_prog, load_object/clone_object/find_object, #include and inherit) with path strings from an '
        'attack grammar ("..", "/..", "a/../..", "//x", "/./", trailing "." and "..", "#", long names, empty, absolute host paths) '
        'while the master answers each valid_read/valid_write from a seeded script (deny, allow, rewrite to a legal or hostile path, '
        'junk value, raise an error). Every libc file call made during an efun is checked at the file seam. non-trivial = a hostile '
        'path or a non-trivial master answer was involved; distinct = distinct (efun, path class, answer kind, outcome).')
RULE += (" Later additions: the files that hostile inherit/include names point at exist above the mudlib (inside the run's private directory).")
COMPONENTS = {'real': ['lib/efuns/file_utils.c', 'lib/efuns/file.c', 'lib/lpc/object.c save/restore', 'lib/efuns/dumpstat.c', 'lib/efuns/dump_prog.c', 'lib/lpc/lex.c include handling', 'src/simulate.c load_object'],
              'stub': ['file layer (pass-through to a scratch mudlib, every call logged)', 'kernel sockets/clock/timer (simulated)']}
ASSUMPTIONS = ['paths derived from an approved path by appending (directory entries of an approved directory, ".tmp" next to an approved save file) count as approved',
               'load_object/clone_object/find_object, #include and inherit are checked for confinement only (the property lists no master mediation for them)',
               'ed() is driven with the commands c/a/w/r/e/E/f/x/Q; the other editor commands do not touch files']

EFUNS1 = ['read_file', 'write_file', 'rm', 'mkdir', 'rmdir', 'get_dir', 'get_dir2', 'stat', 'file_size', 'file_length', 'read_bytes', 'write_bytes',
          'read_buffer', 'write_buffer', 'tail', 'save_object', 'restore_object', 'dumpallobj', 'dump_prog', 'load_object', 'clone_object', 'find_object']
EFUNS2 = ['rename', 'cp', 'link']
UNMEDIATED = ('load_object', 'clone_object', 'find_object')
LEGAL = ['d/f1', 'd/f2', 'd', 'd/sub/f3', 'f0', 'svd/o1', 'd/new', 'vobj', 'pl1']
HOSTILE = ['..', '/..', '../x', 'd/../..', 'd/../../etc/passwd', '//etc/passwd', '/etc/passwd', '/./d/f1', 'd/.', 'd/..', 'd/f1/..', '.', '', '/', 'd//f1',
           'd/a#b', '/tmp/nsim-x', '....//x', 'd/...', '.../x', 'd/./f1', './d/f1', '/d/f1', 'd/f1/', '/../d/f1', '..d/f1', 'd/..f', '~/x',
           'd/' + 'a' * 300, '../' * 12 + 'etc/hostname', '/proc/self/environ',
           # names longer than any fixed buffer in the file efuns ("@n@" is expanded to n letters inside the mudlib)
           '/*', 'd/*', '*', 'd/sub/*', 'd/.*', '/.*',        # patterns (get_dir lists what matches: the entries "." and ".." must not be among them)
           '/@3000@/', 'd/@1500@/', '@1300@', 'd/@260@/f', '/@1279@/', '/@1280@/', '/@1281@/', 'd/@1270@//']


def gen(rng, tier, i):
    p = Plan()
    p.file('mcfg.h', mcfg({}))
    p.cfg('Port', '4000:telnet')
    p.cfg('MaxEvaluationCost', 2000000)
    p.opt('fs_log', 1)
    p.file('d/f1', 'line1\nline2\n'); p.file('d/f2', 'x' * 40 + '\n'); p.file('d/sub/f3', 'z\n'); p.file('f0', 'root file\n')
    p.file('svd/keep', 'k')
    incfiles = ['inc1', 'inc2', 'inc3', 'inh1', 'inh2', 'inh3']
    p.file('inc1.c', '#include "../../../../etc/hostname"\nvoid f() { }\n')
    p.file('inc2.c', '#include "/etc/hostname"\nvoid f() { }\n')
    p.file('inc3.c', '#include "d/../../x.h"\nvoid f() { }\n')
    # include names from an attack grammar (resolved by the lexer's own normaliser, not by the path checks of the file efuns)
    INC = ['.//../../x.h', './../x.h', 'd/.././../x.h', '..//x.h', 'd//../../x.h', './/..//..//etc/hostname', '..', 'd/../..', './..', 'd/../../', '../', '.././x.h',
           'd/..//../x.h', '/..//x.h', '//../x.h', '/./../x.h', 'd/./../../x.h', '...//../x.h', 'd/../d/../../x.h', './/d/../../x.h']
    for k in range(4, 10):
        nm = rng.choice(INC)
        where = rng.choice(('', 'd/', 'd/sub/'))
        p.file('%sinc%d.c' % (where, k), '#include "%s"\nvoid f() { }\n' % nm)
        incfiles.append('%sinc%d' % (where, k))
    # what the hostile names point at exists (above the mudlib, inside the run's private directory): a check that is skipped
    # ends in an open() of these files, not in "no such file"
    p.file('../pl1.c', 'int outside() { return 4242; }\n'); p.file('../x.h', '#define OUTSIDE 1\n'); p.file('../../x.h', '#define OUTSIDE 2\n')
    p.file('inh1.c', 'inherit "/../pl1";\nvoid f() { }\n')
    p.file('inh2.c', 'inherit "../pl1";\nvoid f() { }\n')
    p.file('inh3.c', 'inherit "/etc/passwd";\nvoid f() { }\n')
    n = rng.randint(3, 20 if tier == 'quick' else 40)
    pol = []
    cmds = []
    for k in range(n):
        two = rng.random() < 0.25
        ef = rng.choice(EFUNS2 if two else EFUNS1)
        def path():
            r = rng.random()
            if r < 0.4: return rng.choice(LEGAL)
            if r < 0.6 and ef in UNMEDIATED: return rng.choice(incfiles)
            s = rng.choice(HOSTILE)
            if rng.random() < 0.3: s = rng.choice(('', '/', 'd/')) + s
            return s
        p1 = path(); p2 = path() if two else None
        if not two and rng.random() < 0.12:
            # an ed() session on the file: every following line is an editor command, the last one leaves the editor
            cmds.append('do fe %d ed %s' % (k, p1.encode().hex() or '00'))
            pol.append(rng.choice(('1', '1', '1', '0', 'S:' + rng.choice(LEGAL).encode().hex())))
            for _ in range(rng.randint(1, 6)):
                r2 = rng.random()
                if r2 < 0.25: cmds += ['1c' if rng.random() < 0.5 else 'a', 'edited text', '.']
                elif r2 < 0.45: cmds.append('w')
                elif r2 < 0.6: cmds.append('w ' + path())
                elif r2 < 0.7: cmds.append('r ' + path())
                elif r2 < 0.8: cmds.append(rng.choice(('e ', 'E ')) + path())
                elif r2 < 0.9: cmds.append('f ' + path())
                else: cmds.append('x')
                rr = rng.random()
                pol.append('1' if rr < 0.5 else ('0' if rr < 0.75 else ('S:' + (rng.choice(LEGAL) if rng.random() < 0.5 else rng.choice(HOSTILE)).encode().hex() if rr < 0.93 else 'E')))
            cmds += ['Q', 'Q']
            continue
        cmds.append('do fe %d %s %s%s' % (k, ef, p1.encode().hex() or '00', (' ' + (p2.encode().hex() or '00')) if two else ''))
        for _ in range(2 if two else 1):
            r = rng.random()
            if r < 0.45: pol.append('1')
            elif r < 0.6: pol.append('0')
            elif r < 0.85: pol.append('S:' + (rng.choice(LEGAL) if rng.random() < 0.5 else rng.choice(HOSTILE)).encode().hex())
            elif r < 0.9: pol.append('I')
            elif r < 0.95: pol.append('A')
            else: pol.append('E')
    if rng.random() < 0.25:
        # links whose names are legal but unusual (doubled slash, a link below another link), then reads and writes through them:
        # the path strings stay inside the mudlib - where the kernel ends up is what counts
        k0 = 900
        seq = rng.choice(([('link', 'f0', 'd//ln1'), ('write_file', 'd/ln1', None), ('read_file', 'd/ln1', None)],
                          [('link', 'd', 'd/sub/up'), ('link', 'f0', 'd/sub/up/leak'), ('write_file', 'd/sub/up/leak', None), ('read_file', 'd/leak', None)],
                          [('link', 'd/f1', 'd/sub//ln2'), ('cp', 'f0', 'd/sub/ln2'), ('read_file', 'd/sub/ln2', None)],
                          [('link', 'd/sub', 'ln3'), ('write_file', 'ln3/new', None), ('rm', 'ln3/new', None)]))
        # (first in the plan, with plain approvals: the master's answers are consumed in order)
        head = []
        for ef, a1, a2 in seq:
            head.append('do fe %d %s %s%s' % (k0, ef, a1.encode().hex(), (' ' + a2.encode().hex()) if a2 else '')); k0 += 1
        cmds[:0] = head
        pol[:0] = ['1'] * 12
    p.file('policy', '\n'.join(pol) + '\n')
    p.cycle(connect(0, 0))
    for c in cmds:
        if len(c) < 1900: p.cycle(send(0, c + '\r\n'))
    p.idle(1)
    return p


def _norm(s):
    while s.startswith('./'): s = s[2:]
    while '//' in s: s = s.replace('//', '/')
    if len(s) > 1: s = s.rstrip('/')
    return s or '.'


def _parent(s):
    return s.rsplit('/', 1)[0] if '/' in s else '.' 


def _bad_path(pth):
    if pth.startswith('/'): return 'absolute'
    if '..' in pth.split('/'): return 'dotdot'
    return None


def check(plan, res):
    v = generic_crash_violations(PROP, res)
    if v: return v
    cur = None      # (id, efun)
    approvals = []  # normalised approved paths in the current window
    denials = 0; asked = 0
    fscalls = []
    def close_window():
        nonlocal cur, approvals, denials, asked, fscalls
        if cur is None: return
        fid, ef = cur
        for op, paths in fscalls:
            for pth in paths:
                bad = _bad_path(pth)
                if bad and op in ('stat', 'lstat', 'access') and ef in UNMEDIATED:
                    continue    # existence probe before the name is rejected: nothing is opened (noted in DESIGN.md, not a violation of the statement)
                if bad:
                    v.append(Violation(PROP, 'confinement', '%s made the file call %s on %r (%s path)' % (ef, op, pth[:80], bad), PROP + '/confinement/' + bad + '/' + ef))
                    continue
                if ef in UNMEDIATED: continue
                n = _norm(pth)
                ok = any(n == a or n.startswith(a.rstrip('/') + '/') or n.startswith(a + '.') or (a == '.' ) for a in approvals)
                if not ok and n.endswith('.tmp') and any(a.startswith(n[:-4]) and len(n) >= 250 for a in approvals):
                    ok = True   # save_object's temporary file next to an approved over-long name (name cut at 250 characters)
                if not ok and (ef.startswith('get_dir') or ef == 'stat') and op in ('opendir', 'stat', 'lstat'):
                    ok = any(n == _parent(a) or _parent(n) == _parent(a) for a in approvals)   # a pattern lists its parent directory
                if not ok:
                    why = 'denied' if (asked and not approvals) else ('unasked' if not asked else 'other-path')
                    v.append(Violation(PROP, 'mediation', '%s made the file call %s on %r but the master approved %r (asked %d times, %d denials)' % (ef, op, pth[:80], approvals, asked, denials),
                                       PROP + '/mediation/' + why + '/' + ef))
        cur = None; approvals = []; denials = 0; asked = 0; fscalls = []
    ed_active = False
    for e in res.events:
        if e.kind == 'R':
            w = e.rest.split(' ')
            if w[0] == 'FE':
                close_window(); cur = (w[1], w[2])
            elif w[0] == 'FEDONE':
                was_ed = cur is not None and cur[1] == 'ed'
                close_window()
                if was_ed and w[2] != 'err': ed_active = True
            elif w[0] == 'EDEXIT':
                ed_active = False
            elif w[0] in ('VR', 'VW') and cur is not None:
                asked += 1
                asked_path = bytes.fromhex(w[2]).decode('latin-1') if len(w) > 2 and w[2] else ''
                ans = w[3][4:] if len(w) > 3 else '1'
                if ans in ('0', 'E'): denials += 1; continue
                ap = bytes.fromhex(ans[2:]).decode('latin-1') if ans.startswith('S:') else asked_path
                ap = re.sub(r'@(\d+)@', lambda m_: 'a' * int(m_.group(1)), ap)     # the mudlib expands "@n@" to n letters
                if ap.startswith('/'): ap = ap[1:]
                if ap == '': ap = '.'
                approvals.append(_norm(ap))
        elif e.kind == 'fs_escape' and cur is not None:
            w = e.rest.split(' ')
            v.append(Violation(PROP, 'confinement', '%s opened %r, which the kernel resolved to %r outside the mudlib (a symbolic link leads out)' % (cur[1], dec(w[1]).decode('latin-1')[:80], dec(w[2][5:]).decode('latin-1')[:80]),
                               PROP + '/confinement/symlink-escape/' + cur[1]))
        elif e.kind == 'fs' and cur is not None:
            w = e.rest.split(' ')
            op = w[0]
            paths = [dec(x).decode('latin-1') for x in w[1:-1]]
            fscalls.append((op, paths))
        elif e.kind == 'cycle':
            close_window()
            if ed_active: cur = ('edline', 'ed')      # every editor command line is judged on its own: approvals do not carry over
    close_window()
    # de-duplicate by class
    seen = set(); out = []
    for x in v:
        if x.cls in seen: continue
        seen.add(x.cls); out.append(x)
    return out


def summarize(plan, res):
    kinds = []
    ef = None; nontriv = False
    for e in res.events:
        if e.kind == 'R':
            w = e.rest.split(' ')
            if w[0] == 'FE': ef = w[2]
            elif w[0] in ('VR', 'VW'):
                a = w[3][4:] if len(w) > 3 else '1'
                kinds.append('%s:%s' % (ef, a[:1]))
                if a != '1': nontriv = True
            elif w[0] == 'FEDONE': kinds.append('=' + w[2])
        elif e.kind == 'fs': kinds.append('f' + e.rest.split(' ')[0][:4])
    return {'nontrivial': nontriv, 'abstract': hashlib.sha256(' '.join(kinds).encode()).hexdigest()[:16],
            'probes': {'fs_calls': sum(1 for e in res.events if e.kind == 'fs'), 'master_denials': sum(1 for e in res.events if e.kind == 'R' and ' ans=0' in e.rest)}}
