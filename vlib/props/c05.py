# C05 - after any LPC error the machine state is what it was before the failed call.
# Engine W-sweep: one scenario (a frame nest built by one user command), an LPC error injected at EVERY executed instruction.
import re, hashlib
from ..core import Plan, Violation, generic_crash_violations, enc, dec
from ..world import *

PROP = 'C05'
LEVEL = 'fault_enumeration'
RULE = ('scenario = seeded frame nest started by one user command through the real backend: local calls, call_other, function '
        'pointers (plain and with bound arguments), efun callbacks (filter/map/sort_array), catch inside catch, applies made by efuns '
        '(present->id, move_object->init, clone_object->create, destruct->move_or_destruct, say->catch_tell, command->action), natural '
        'errors (error(), type error, throw) at seeded leaves. A fault-free run counts the N instructions of the command; then one run per '
        'fault point: a catchable error injected at instruction k for every k < N (N <= 400, else 400 sampled), plus eval-cost exhaustion at '
        'a sample of k. non-trivial = the fault fired; distinct = distinct (scenario, program, frame depth class, caught-or-not).')
RULE += (' Later additions: loads of an unloaded file from every call depth up to and beyond the limit (op dload), the fixed probe also before the scenario, a verb function that declines (returns 0) after removing its own action or destructing its living around a failing inner command().')
COMPONENTS = {'real': ['src/error_context.c', 'src/frame.c', 'src/apply.c', 'src/interpret.c', 'src/simulate.c', 'src/backend.c', 'src/comm.c', 'lib/lpc/functional.c', 'lib/efuns'],
              'stub': ['kernel sockets/clock/timer (simulated)'], 'hook': ['per-instruction callback in eval_instruction (NEOLITH_VERIF) raises error() / presets eval_cost']}
ASSUMPTIONS = ['side effects performed before the error are allowed; the probe evaluation only uses objects it creates itself',
               'driver-entry registers compared: value-stack and control-stack depth, error-context depth, command-giver save-stack depth, limit-error state flag']
INJECT = '*verif injected fault'
SEPS = [';', ',', '~', '^', '|', '`']


def _nested_efun(rng, level, st):
    """an efun callback that catches an error raised inside a nested efun (mostly of the same kind), then goes on"""
    st['catch'] += 1; st['leaf'] += 1
    ef = rng.choice(('sort', 'sort', 'filter 2', 'map 2'))
    ef2 = ef if rng.random() < 0.7 else rng.choice(('sort', 'filter 2', 'map 2'))
    leaf = rng.choice(('bomb %d err' % st['leaf'], 'bomb %d typeerr' % st['leaf'], 'bomb %d throw' % st['leaf'], 'rec leaf%d' % st['leaf']))
    return '%s catch %d %s %s%srec after%d' % (ef, st['catch'], ef2, leaf, SEPS[level + 1], st['leaf'])


def _nest(rng, level, st):
    """one op (possibly containing a nested script) at separator level `level`"""
    if level >= 4 or rng.random() < 0.25:
        r = rng.random()
        st['leaf'] += 1
        if r < 0.45: return 'rec leaf%d' % st['leaf']
        if r < 0.6: return 'bomb %d %s' % (st['leaf'], rng.choice(('err', 'typeerr', 'throw')))
        if r < 0.64: return 'dload /lobj %d' % st['maxdepth']
        if r < 0.7: return 'deep %d' % rng.randint(1, 4)
        if r < 0.8: return 'spend %d' % rng.randint(1, 6)
        if r < 0.9: return 'co q%d %d rec later' % (st['leaf'], rng.randint(1, 3))
        return 'hb me %d' % rng.randint(0, 2)
    sep = SEPS[level + 1]
    inner = sep.join(_nest(rng, level + 1, st) for _ in range(rng.randint(1, 2)))
    r = rng.random()
    if r < 0.06 and level <= 1:
        return _nested_efun(rng, level, st)
    if r < 0.2:
        st['catch'] += 1
        return 'catch %d %s' % (st['catch'], inner)
    if r < 0.32: return 'as %s %s' % (rng.choice(('a', 'b', 'c')), inner)
    if r < 0.4: return 'fp %s' % inner
    if r < 0.47: return 'fpb %s' % inner if rng.random() < 0.5 else rng.choice(('spread %s', 'spread2 %s')) % inner
    if r < 0.55: return 'filter %d %s' % (rng.randint(1, 2), inner)
    if r < 0.62: return 'map %d %s' % (rng.randint(1, 2), inner)
    if r < 0.68: return 'sort %s' % inner
    if r < 0.72: return 'setcs %s%sclone /vobj' % (inner, SEPS[level])
    if r < 0.78: return 'setcs %s%sload /lobj' % (inner, SEPS[level])
    # applies made by efuns: the hook scripts were installed by the setup commands
    return rng.choice(('present me', 'move a b', 'move b me', 'say hello', 'cmd x', 'as b cmd x', 'as b cmd x', 'dest c', 'dest a', 'parse', 'parse', 'cmd y', 'as b cmd y', 'rmy'))


def gen(rng, tier, i):
    p = Plan()
    # one master in three protects its own error_handler with catch() (as real mudlibs do): a catch() that runs between the
    # moment an error is raised and the moment the failing evaluation's own catch receives it
    r0 = rng.random()
    p.file('mcfg.h', mcfg({'EH_CATCH': 1} if r0 < 0.3 else ({'EH_CATCH1': 1} if r0 < 0.5 else {})))
    p.cfg('Port', '4000:telnet')
    p.cfg('MaxEvaluationCost', 200000)
    mcd = rng.choice((30, 50))
    p.cfg('MaxCallDepth', mcd)
    p.cfg('MaxInheritDepth', 3)
    st = {'leaf': 0, 'catch': 0, 'maxdepth': mcd + 2}
    kind = rng.choice(('cmd', 'cmd', 'cmd', 'netdead', 'callout', 'heartbeat', 'edwrite'))
    p.opt('c05_kind', kind)

    def cmd(text, c=0): return p.cycle(send(c, 'do ' + text + '\r\n'))

    p.cycle(connect(0, 0)); p.cycle(connect(0, 1))
    cmd('name u1', 1)
    cmd('name u0;clone /vobj a;clone /vobj b;clone /vobj c;move a me;move b me;move c a;as b living')
    # hook scripts (each is itself a small nest, stored one level down)
    for ob in ('a', 'b', 'c', 'me'):
        for hk in (('id', 'init', 'mod', 'catch_tell', 'pid') + (('x', 'y') if ob == 'b' else ()) if ob != 'me' else ('x', 'y')):
            if rng.random() < 0.5:
                cmd('sc %s %s %s' % (ob, hk, ','.join(_nest(rng, 1, st) for _ in range(rng.randint(1, 2)))))
    forced = None
    if rng.random() < 0.3:
        # a verb function that declines after removing its own action, with a command inside it that fails under a catch: the
        # driver's note "an action was removed" has to survive the error in the inner command
        who = rng.choice(('me', 'b')); st['catch'] += 1; st['leaf'] += 1
        kindb = rng.choice(('err', 'typeerr', 'throw'))
        cmd('rmx', 1)       # (an action removed for good: the driver's pool of free sentences is not empty for the rest of the run)
        # (other actions removed or objects destructed before: the driver's pool of free sentences is not empty then)
        pre = rng.choice(('rmy,', 'rmy,', 'rmx,rmy,', 'dest c,rmy,', 'move b me,' if who == 'b' else 'rmx,rmy,', 'rmx,dest %s,' % who))     # (the last: the verb function destructs the living it runs for)
        inner = 'cmd do bomb %d %s' % (st['leaf'], kindb) if (who == 'me' and ('rmx' in pre or rng.random() < 0.3)) else 'cmd x'
        cmd('sc %s y %scatch %d %s%s' % (who, pre, st['catch'], inner, rng.choice(('', ',rec after%d' % st['leaf']))))
        cmd('sc %s x bomb %d %s' % (who, st['leaf'], kindb))
        forced = 'cmd y' if who == 'me' else 'as b cmd y'
    # the fixed probe evaluation, once before anything has failed
    cmd('probe', 1)
    if kind == 'cmd':
        ops = [_nest(rng, 0, st) for _ in range(rng.randint(1, 3))]
        if rng.random() < 0.3: ops.insert(rng.randint(0, len(ops)), _nested_efun(rng, 0, st))
        if forced: ops.insert(rng.randint(0, len(ops)), forced)
        j = cmd(';'.join(ops))
    elif kind == 'edwrite':
        # the editor's write callback runs through safe_apply() with two arguments; the fault lands inside it
        p.file('d/f1', 'line1\nline2\n')
        cmd('sc me edw %s' % ','.join(_nest(rng, 1, st) for _ in range(rng.randint(1, 2))))
        cmd('fe 1 edw ' + 'd/f1'.encode().hex())
        j = p.cycle(send(0, 'w\r\n'))
        p.cycle(send(0, 'Q\r\n')); p.cycle(send(0, 'Q\r\n'))
    elif kind == 'netdead':
        cmd('sc me net_dead %s' % ','.join(_nest(rng, 1, st) for _ in range(rng.randint(1, 2))))
        j = p.cycle(rng.choice((eof(0), rst(0))))
    elif kind == 'callout':
        cmd('co z1 1 %s' % ','.join(_nest(rng, 1, st) for _ in range(rng.randint(1, 2))))
        if rng.random() < 0.5: cmd('as a co z2 1 %s' % '~'.join(_nest(rng, 2, st) for _ in range(rng.randint(1, 2))))
        j = p.cycle(tick())
    else:
        cmd('sc %s hb %s' % (rng.choice(('me', 'a')), ','.join(_nest(rng, 1, st) for _ in range(rng.randint(1, 2)))))
        cmd('hb me 1;hb a 1;hb b 1')
        j = p.cycle(tick())
    p.opt('c05_cycle', j)
    if rng.random() < 0.25:
        # statements that leave a catch { } block from the inside (return; in loops and switches too): the compiler has to refuse
        # them or the interpreter has to unwind the catch frame - either way the stacks are whole afterwards
        inner = rng.choice(('return 5;', 'while (x) { return 5; }', 'switch (x) { case 1: return 5; }', 'if (x) return 5;', 'foreach (y in ({ 1 })) return y;'))
        p.file('cr.c', 'inherit "/script";\nint h3(int a, int b, int c) { return a + b + c; }\nint f(int a, int b) { int x, y; x = 1; y = h3(1, 2, 3); catch { %s }; return 7; }\n'
                        'void go() { rec("CR " + f(1, 2)); rec("CR " + f(3, 4)); }\n' % inner)
        cmd('call /cr go')
    cmd('probe', 1)
    p.cycle(tick()); p.idle(1)
    cmd('probe', 1)
    p.idle(1)
    return p


def has_fault(plan): return any(parse_step(s)[0] == 'fault' for c in plan.cycles for s in c)


def without_fault(plan):
    q = plan.copy()
    q.cycles = [[s for s in c if parse_step(s)[0] != 'fault'] for c in q.cycles]
    q.cycles = [c for c in q.cycles if c]
    return q


def with_fault(plan, k):
    q = plan.copy()
    j = int(q.opts()['c05_cycle'])
    kind = 'error'
    if k >= 2000000: kind = 'stackroom:%d' % ((k - 2000000) % 32); k = (k - 2000000) // 32
    elif k >= 1000000: kind = 'evalcost'; k -= 1000000
    q.cycles[j] = [fault(k, kind)] + q.cycles[j]
    return q


def _scenario_cycle(plan, res):
    """event-cycle number in which the scenario command executes"""
    for ci, cyc in enumerate(plan.cycles):
        pass
    j = int(plan.opts().get('c05_cycle', -1))
    return j + 1


def points(plan, res, tier, rng):
    c = _scenario_cycle(plan, res)
    instr = {}
    for e in res.of('cycle'):
        instr[e.cycle] = int(e.kv().get('instr', 0))
    if c not in instr or c + 1 not in instr: return []
    n = instr[c + 1] - instr[c]
    cap = 400 if tier == 'quick' else 1500
    ks = list(range(n)) if n <= cap else sorted(rng.sample(range(n), cap))
    ev = sorted(rng.sample(range(n), min(n, 25 if tier == 'quick' else 100)))
    # the value stack runs out: from instruction k on only `room` slots are free, so the driver's own "Stack overflow" is raised
    # by whichever push comes first - inside an efun, while a callee's locals are set up, while arguments are spread
    sr = sorted(rng.sample(range(n), min(n, 120 if tier == 'quick' else 500)))
    return ks + [1000000 + k for k in ev] + [2000000 + k * 32 + rng.choice((0, 1, 2, 3, 4, 5, 6, 8, 10, 13, 17, 22, 30)) for k in sr]


def _entry_tuples(res):
    out = set()
    for e in res.of('entry'):
        kv = e.kv(); out.add((kv['sp'], kv['csp'], kv['cgd'], kv['ecd'], kv['es'], kv['chb'], kv.get('lv', '0')))
    return out


def _recs(res, head):
    return [e.rest for e in res.events if e.kind == 'R' and e.rest.startswith(head + ' ')]


def base_info(plan, res):
    return {'entry': sorted(_entry_tuples(res)), 'probe': _recs(res, 'PROBE'), 'catch': _recs(res, 'CATCH'), 'ok': res.ok}


def check_base(plan, res):
    v = generic_crash_violations(PROP, res)
    if v: return v
    if len(_entry_tuples(res)) > 1:
        v.append(Violation(PROP, 'entry', 'driver-entry registers differ between cycles in a run: %s' % sorted(_entry_tuples(res)), PROP + '/entry/changes-' + _which(sorted(_entry_tuples(res)))))
    if _recs(res, 'CATCHBAD'):
        v.append(Violation(PROP, 'catch-frame', 'frame state differs after catch: ' + _recs(res, 'CATCHBAD')[0], PROP + '/catch/frame-not-restored'))
    v += _efun_results(res)
    pr = _recs(res, 'PROBE')
    segs = []
    for x in pr:
        if x.startswith('PROBE catch=') or not segs: segs.append([])
        segs[-1].append(x)
    bad = next((sg for sg in segs[1:] if sg != segs[0]), None)
    if bad is not None:
        v.append(Violation(PROP, 'probe', 'probe evaluation differs before/after a natural error: %s vs %s' % (segs[0], bad), PROP + '/probe/differs'))
    return v


def _efun_results(res):
    """an efun that completed returns what it always returns: its callbacks' scripts (and errors caught inside them) do not matter"""
    out = []
    for r in _recs(res, 'EFRES'):
        w = r.split(' ', 2)
        if len(w) > 2 and w[2] != 'ok':
            out.append(Violation(PROP, 'efun-result', '%s completed after an error was caught inside its callback, but returned %s' % (w[1], w[2][:80]), PROP + '/efun-state/%s-result-wrong' % w[1]))
            break
    return out


def _which(tuples):
    names = ('sp', 'csp', 'cgstack', 'errctx', 'errstate', 'current_heart_beat', 'last_verb')
    diff = set()
    for t in tuples[1:]:
        for a, b, n in zip(tuples[0], t, names):
            if a != b: diff.add(n)
    return '+'.join(sorted(diff)) or 'none'


def check_point(plan, res, info):
    v = generic_crash_violations(PROP, res)
    if v: return v
    fired = res.of('fault_fired')
    if not fired: return v
    # the fault must have fired inside the scenario command (the cycle that carries the fault step)
    fc = next((ci for ci, c in enumerate(plan.cycles) if any(parse_step(x)[0] == 'fault' for x in c)), None)
    if fc is None or fired[0].cycle != fc + 1: return v
    evalcost = 'kind=evalcost' in fired[0].rest or 'kind=stackroom' in fired[0].rest      # the error is raised by the driver, later
    ent = _entry_tuples(res)
    base = set(tuple(t) for t in info['entry'])
    extra = sorted(ent - base)
    if extra:
        v.append(Violation(PROP, 'entry', 'after an error injected at %s the driver-entry registers (sp,csp,cgstack,errctx,errstate,chb,last_verb) were %s, fault-free %s' % (fired[0].rest, extra, sorted(base)),
                           PROP + '/entry/not-restored-' + _which(sorted(base)[:1] + extra)))
    if _recs(res, 'CATCHBAD'):
        v.append(Violation(PROP, 'catch-frame', 'frame state differs after catch: ' + _recs(res, 'CATCHBAD')[0], PROP + '/catch/frame-not-restored'))
    v += _efun_results(res)
    # catch yields the raised value.  Before the fault fires the run is the fault-free run, so its CATCH records are a
    # prefix of the fault-free ones; the catch that receives the injected error must yield exactly its message.  What the
    # command does after a caught fault is not constrained (side effects made before the error legitimately persist).
    fidx = next(i for i, e in enumerate(res.events) if e.kind == 'fault_fired')
    before = [e.rest for e in res.events[:fidx] if e.kind == 'R' and e.rest.startswith('CATCH ')]
    if before != info['catch'][:len(before)]:
        v.append(Violation(PROP, 'catch-value', 'catch results before the fault %r differ from the fault-free run %r' % (before[-2:], info['catch'][:len(before)][-2:]), PROP + '/catch/wrong-value'))
    # innermost catch open when the fault fired (CATCHIN without its CATCH yet)
    stack = []
    for e in res.events[:fidx]:
        if e.kind == 'R':
            w = e.rest.split(' ')
            if w[0] == 'CATCHIN': stack.append(w[1])
            elif w[0] == 'CATCH' and stack and stack[-1] == w[1]: stack.pop()
            elif w[0] == 'CATCH' and w[1] in stack:
                while stack and stack[-1] != w[1]: stack.pop()
                if stack: stack.pop()
    # a fault that fires inside the master's own error_handler (which may run under the handler's own catch) is not the
    # failing evaluation's error: the evaluation's catch then yields the error the handler was called for
    in_master = 'prog=master.c' in res.events[fidx].rest or 'prog=/master.c' in res.events[fidx].rest
    if stack and not evalcost and not in_master:
        inner = stack[-1]
        nxt = next((e.rest for e in res.events[fidx:] if e.kind == 'R' and (e.rest.startswith('CATCH ') or e.rest.startswith('CATCHIN '))), None)
        # only judged when the very next catch event is the completion of that innermost catch
        if nxt and nxt.startswith('CATCH %s ' % inner) or (nxt == 'CATCH %s' % inner):
            w = nxt.split(' ', 2); val = w[2] if len(w) > 2 else ''
            if val != INJECT:
                v.append(Violation(PROP, 'catch-value', 'catch %s, innermost when the error was injected, yielded %r' % (inner, val), PROP + '/catch/wrong-value'))
    # later evaluations behave as if the failed one had never started
    if _recs(res, 'PROBE') != info['probe']:
        a = _recs(res, 'PROBE'); b = info['probe']
        d = next((x for x in zip(a, b) if x[0] != x[1]), (a[len(b):][:1], b[len(a):][:1]))
        v.append(Violation(PROP, 'probe', 'probe evaluation after the failed one differs from the fault-free run: %s' % (d,), PROP + '/probe/differs-after-error' + ('-stackroom' if 'kind=stackroom' in fired[0].rest else '-evalcost' if evalcost else '')))
    return v


def summarize_point(plan, res, info):
    fired = res.of('fault_fired')
    if not fired: return {'nontrivial': False, 'abstract': '', 'probes': {'fault_not_reached': 1}}
    caught = any(e.rest.startswith('CATCH ') and INJECT in e.rest for e in res.events if e.kind == 'R')
    errs = [e.rest for e in res.events if e.kind == 'R' and e.rest.startswith('ERR ') and ('verif injected' in e.rest or ('kind=stackroom' in fired[0].rest and 'tack overflow' in e.rest))]
    depth = errs[0].count('|') if errs else 0
    frames = ''
    if errs:
        m = re.search(r'trace=(\S+)', errs[0])
        if m: frames = ','.join(sorted(set(x.split('@')[0] for x in m.group(1).split('|'))))
    key = '%s %s d%d c%d %s' % (plan.opts().get('c05_cycle'), fired[0].kv().get('prog'), depth, caught, frames)
    return {'nontrivial': True, 'abstract': hashlib.sha256((str(plan.cycles[int(plan.opts()['c05_cycle'])][-1]) + key).encode()).hexdigest()[:16],
            'probes': {'caught_by_lpc_catch': int(caught), 'reached_driver': int(bool(errs) and not caught), 'evalcost_kind': int('evalcost' in fired[0].rest),
                       'stackroom_kind': int('stackroom' in fired[0].rest), 'stackroom_overflow_raised': int('stackroom' in fired[0].rest and any('tack overflow' in e.rest for e in res.events if e.kind in ('R', 'D')))}}
