# Core of the verification orchestrator: plans, nsim workers, seeded batches, shrinking,
# replay gating, known findings, evidence.  Python stdlib only.
import os, sys, json, time, hashlib, random, select, signal, subprocess, multiprocessing, re, fcntl

ROOT = os.path.dirname(os.path.dirname(os.path.abspath(__file__)))
BUILD = os.path.join(ROOT, '.build')
MASK64 = (1 << 64) - 1


def splitmix(x):
    x = (x + 0x9e3779b97f4a7c15) & MASK64
    x = ((x ^ (x >> 30)) * 0xbf58476d1ce4e5b9) & MASK64
    x = ((x ^ (x >> 27)) * 0x94d049bb133111eb) & MASK64
    return x ^ (x >> 31)


def run_seed(verif_seed, prop, i):
    h = int.from_bytes(hashlib.sha256(prop.encode()).digest()[:8], 'big')
    return splitmix(splitmix(verif_seed & MASK64) ^ h ^ splitmix(i))


def enc(s):
    """percent-encode a str/bytes token for a plan line (the empty string is '%')"""
    if isinstance(s, str):
        s = s.encode('latin-1')
    out = []
    for c in s:
        if 0x20 < c < 0x7f and c != 0x25:
            out.append(chr(c))
        else:
            out.append('%%%02X' % c)
    return ''.join(out) or '%'


def dec(s):
    if s == '%':
        return b''
    out = bytearray()
    i = 0
    while i < len(s):
        if s[i] == '%' and i + 2 < len(s):
            out.append(int(s[i + 1:i + 3], 16)); i += 3
        else:
            out.append(ord(s[i])); i += 1
    return bytes(out)


class Plan:
    """header: list of header lines (cfg/opt/file); steps: list of cycles, each a list of step
    strings (without the 'step' keyword); the first of a cycle gets 'step', the rest '&step'."""

    def __init__(self):
        self.header = []
        self.cycles = []
        self.meta = {}

    def cfg(self, k, v): self.header.append('cfg %s %s' % (k, enc(str(v))))
    def opt(self, k, v): self.header.append('opt %s %s' % (k, enc(str(v))))
    def file(self, path, content): self.header.append('file %s %s' % (enc(path), enc(content)))
    def cycle(self, *steps): self.cycles.append(list(steps)); return len(self.cycles) - 1
    def idle(self, n=1):
        for _ in range(n): self.cycles.append(['idle'])

    def lines(self):
        out = list(self.header)
        if self.meta.get('raw'):
            for cyc in self.cycles: out.extend(cyc)
            return out
        for cyc in self.cycles:
            for j, s in enumerate(cyc):
                out.append(('step ' if j == 0 else '&step ') + s)
        return out

    def text(self): return '\n'.join(self.lines()) + '\n'

    def copy(self):
        p = Plan(); p.header = list(self.header); p.cycles = [list(c) for c in self.cycles]; p.meta = dict(self.meta)
        return p

    def to_json(self): return {'header': self.header, 'cycles': self.cycles, 'meta': self.meta}

    @staticmethod
    def from_json(d):
        p = Plan(); p.header = list(d['header']); p.cycles = [list(c) for c in d['cycles']]; p.meta = dict(d.get('meta', {}))
        return p

    def opts(self):
        d = {}
        for h in self.header:
            t = h.split(' ')
            if t[0] == 'opt':
                d[t[1]] = dec(t[2]).decode('latin-1')
        return d


class Event:
    __slots__ = ('cycle', 'vus', 'kind', 'rest')

    def __init__(self, cycle, vus, kind, rest):
        self.cycle = cycle; self.vus = vus; self.kind = kind; self.rest = rest

    def kv(self):
        d = {}
        for t in self.rest.split(' '):
            if '=' in t:
                k, v = t.split('=', 1); d[k] = v
        return d

    def __repr__(self): return 'E %d %d %s %s' % (self.cycle, self.vus, self.kind, self.rest)


class Result:
    def __init__(self):
        self.events = []
        self.raw = []
        self.exit = None      # ('exit', code) | ('signal', n) | ('wall-timeout', 0) | ('planerror', msg)
        self.stderr = ''
        self.hash = ''

    @property
    def ok(self): return self.exit == ('exit', 0) and any(e.kind == 'END' for e in self.events[-3:])
    def of(self, kind): return [e for e in self.events if e.kind == kind]
    def recs(self): return [e for e in self.events if e.kind == 'R']

    def stats(self):
        for e in reversed(self.events):
            if e.kind == 'STATS':
                return {k: int(v) for k, v in e.kv().items() if v.lstrip('-').isdigit()}
        return {}

    def tx(self):
        """bytes accepted by send() per conn, in order"""
        out = {}
        for e in self.events:
            if e.kind == 'tx':
                kv = e.kv(); hx = e.rest.split(' ')[-1]
                out.setdefault(int(kv['conn']), bytearray()).extend(b'' if hx == '-' else bytes.fromhex(hx))
        return out


def parse_result(lines):
    r = Result()
    h = hashlib.sha256()
    for ln in lines:
        if ln.startswith('E '):
            h.update(ln.encode('latin-1', 'replace')); h.update(b'\n')
            t = ln.split(' ', 4)
            if len(t) < 4: continue
            r.events.append(Event(int(t[1]), int(t[2]), t[3], t[4] if len(t) > 4 else ''))
        elif ln.startswith('X '):
            t = ln.split(' ')
            r.exit = (t[1], int(t[2]) if t[2].lstrip('-').isdigit() else t[2])
        elif ln.startswith('STDERR '):
            r.stderr = dec(ln[7:]).decode('utf-8', 'replace')
    r.raw = lines
    r.hash = h.hexdigest()
    return r


class Worker:
    """one 'nsim serve' process; run(plan) -> Result"""

    def __init__(self, variant='asan', wall_timeout=120.0, exe='nsim'):
        self.variant = variant; self.wall_timeout = wall_timeout; self.p = None; self.exe = exe

    def start(self):
        exe = os.path.join(BUILD, self.variant, 'sim', self.exe)
        env = dict(os.environ)
        env['NSIM_MUDLIB'] = os.path.join(ROOT, 'mudlib')
        env.setdefault('NSIM_TMP', os.environ.get('TMPDIR', '/tmp'))
        self.p = subprocess.Popen([exe, 'serve'], stdin=subprocess.PIPE, stdout=subprocess.PIPE, stderr=subprocess.DEVNULL,
                                  env=env, start_new_session=True, bufsize=0)
        self.buf = b''

    def stop(self):
        if self.p:
            try: os.killpg(self.p.pid, signal.SIGKILL)
            except Exception: pass
            try: self.p.wait(timeout=5)
            except Exception: pass
            self.p = None

    def run(self, plan):
        if self.p is None or self.p.poll() is not None:
            self.start()
        data = (plan.text() if isinstance(plan, Plan) else plan) + '.\n'
        try:
            self.p.stdin.write(data.encode('latin-1'))
            self.p.stdin.flush()
        except BrokenPipeError:
            self.stop(); self.start()
            self.p.stdin.write(data.encode('latin-1')); self.p.stdin.flush()
        lines = []
        deadline = time.time() + self.wall_timeout
        fd = self.p.stdout.fileno()
        while True:
            nl = self.buf.find(b'\n')
            if nl >= 0:
                ln = self.buf[:nl].decode('latin-1'); self.buf = self.buf[nl + 1:]
                if ln == '.':
                    break
                lines.append(ln)
                continue
            left = deadline - time.time()
            if left <= 0:
                self.stop()
                r = parse_result(lines); r.exit = ('wall-timeout', 0)
                return r
            rl, _, _ = select.select([fd], [], [], min(left, 5.0))
            if rl:
                chunk = os.read(fd, 1 << 16)
                if not chunk:
                    self.stop()
                    r = parse_result(lines); r.exit = ('worker-died', 0)
                    return r
                self.buf += chunk
        return parse_result(lines)


# legacy idioms that UBSan flags although no memory is touched (pointer one before an array that is only used as p + 1)
BENIGN_UB = [r'lib/efuns/file\.c:230:\d+: runtime error: index -1 out of bounds']


class Violation:
    def __init__(self, prop, oracle, detail, cls=None):
        self.prop = prop; self.oracle = oracle; self.detail = detail
        self.cls = cls or ('%s/%s' % (prop, oracle))

    def to_json(self): return {'property': self.prop, 'oracle': self.oracle, 'detail': self.detail, 'class': self.cls}
    def __repr__(self): return '%s: %s' % (self.cls, self.detail)


def generic_crash_violations(prop, res, sanitizer_counts=True):
    """classify abnormal endings common to all W properties"""
    v = []
    if res.exit is None:
        return [Violation(prop, 'infra', 'no exit status')]
    kind, code = res.exit
    if kind == 'exit' and code == 0:
        if not res.ok:
            v.append(Violation(prop, 'early-return', 'run ended without END marker'))
        # UBSan runs in recover mode: reports are judged here, benign legacy idioms are filtered
        for m in re.finditer(r'(\S+?):(\d+):\d+: runtime error: ([^\n]*)', res.stderr or ''):
            where, line, what = m.group(1).replace('/repo/', ''), m.group(2), m.group(3)
            if any(re.search(b, m.group(0)) for b in BENIGN_UB): continue
            fn = re.search(r'#0 0x[0-9a-f]+ in (\S+)', res.stderr[m.end():m.end() + 300])
            v.append(Violation(prop, 'sanitizer', 'UndefinedBehaviorSanitizer: %s at %s:%s' % (what[:120], where, line),
                               '%s/sanitizer/%s/%s' % (prop, re.sub(r'[^a-z]+', '-', what.split(' for ')[0].split(' of type')[0].lower())[:40].strip('-'), fn.group(1) if fn else where)))
            break
        return v
    detail = '%s %s' % (kind, code)
    if kind == 'exit' and code == 77:
        m = re.search(r'SUMMARY: (\w+): (\S+) (\S+?)(?::\d+)*(?: in (\S+))?', res.stderr)
        if m:
            tool, what, where, fn = m.group(1), m.group(2), m.group(3), m.group(4) or ''
            if not fn:
                f2 = re.search(r'#0 0x[0-9a-f]+ in (\S+)', res.stderr)
                fn = f2.group(1) if f2 else ''
            if what == 'undefined-behavior':
                rm = re.search(r'runtime error: ([a-z -]+)', res.stderr)
                what = (rm.group(1).strip().replace(' ', '-')[:40]) if rm else what
            where = where.replace('/repo/', '')
            v.append(Violation(prop, 'sanitizer', '%s %s at %s in %s' % (tool, what, where, fn), '%s/sanitizer/%s/%s' % (prop, what, fn or where)))
        else:
            v.append(Violation(prop, 'sanitizer', 'sanitizer report (unparsed): ' + res.stderr[:200], '%s/sanitizer/unparsed' % prop))
    elif kind == 'exit' and code == 70:
        f = res.of('FATAL')
        msg = f[-1].rest if f else ''
        v.append(Violation(prop, 'fatal', 'driver called fatal(): ' + msg[:200], '%s/fatal/%s' % (prop, re.sub(r'[^A-Za-z]+', '-', msg[:40]))))
    elif kind == 'exit' and code == 76:
        v.append(Violation(prop, 'hang', 'run did not finish within the wall-clock limit (driver spinning outside the interpreter)', '%s/hang/wallclock' % prop))
    elif kind == 'exit' and code == 75:
        h = res.of('HANG')
        v.append(Violation(prop, 'hang', 'simulated budget exhausted: ' + (h[-1].rest if h else ''), '%s/hang' % prop))
    elif kind == 'signal':
        v.append(Violation(prop, 'crash', 'killed by signal %s' % code, '%s/crash/signal%s' % (prop, code)))
    elif kind == 'wall-timeout':
        v.append(Violation(prop, 'wall-timeout', 'no result within wall-clock limit', '%s/wall-timeout' % prop))
    else:
        v.append(Violation(prop, 'abnormal', detail, '%s/abnormal/%s' % (prop, detail.replace(' ', '-'))))
    return v


def spin_violations(prop, res, error_cycles=None):
    """a connection that the (level-triggered) poll reports readable while the driver, in that pass, neither reads it nor does
    anything else (no LPC instruction, no socket call): nothing has changed, so the next poll reports the same - in deployment
    a busy loop, and that client is never served again.  Two such passes in a row are reported.  (A pass that served a
    buffered command, or that an uncaught error cut short, is not one: a user whose input buffer is full of pending commands
    is legitimately not read until there is room.)"""
    instr = {}; active = set()
    for e in res.events:
        if e.kind == 'cycle': instr[e.cycle] = int(e.kv().get('instr', 0))
        elif e.kind in ('recv', 'tx', 'accept', 'close', 'fault_fired', 'R', 'D', 'cons_tx', 'eventfd_read', 'fs'): active.add(e.cycle)
    runs = {}
    for e in res.events:
        if e.kind != 'unread': continue
        kv = e.kv(); c = kv.get('conn'); k = e.cycle - 1           # written at the start of cycle k+1 about the pass made in cycle k
        idle = k in instr and e.cycle in instr and instr[e.cycle] == instr[k] and k not in active and (error_cycles is None or k not in error_cycles)
        if not idle: runs[c] = 0; continue
        runs[c] = runs.get(c, 0) + 1
        if runs[c] >= 2:
            return [Violation(prop, 'spin', 'connection %s is reported readable by poll in passes in which the driver does nothing at all (two in a row, up to cycle %d): a busy loop' % (c, k), prop + '/spin/readable-connection-never-read')]
    return []


# ---------------------------------------------------------------------------------- build
def build(variant='asan', quiet=True, tools=('build_repo.sh', 'build_sim.sh')):
    for tool in tools:
        r = subprocess.run([os.path.join(ROOT, 'tools', tool), variant], stdout=subprocess.PIPE, stderr=subprocess.PIPE, text=True)
        if r.returncode != 0:
            sys.stderr.write(r.stdout + r.stderr)
            sys.stderr.write('BUILD FAILED (%s %s)\n' % (tool, variant))
            sys.exit(2)


# ---------------------------------------------------------------------------------- pool
_worker = None
_prop = None


def _init(propmod_name, variant):
    global _worker, _prop
    import importlib
    _prop = importlib.import_module(propmod_name)
    _worker = Worker(variant, exe=getattr(_prop, 'EXE', 'nsim'))
    _worker.start()


HARNESS_LPC = ('script.c', 'master.c', 'user.c', 'simul_efun.c', 'spend.c', 'svlib.c', 'uobj.c', 'vobj.c', 'lobj.c')


def harness_compile_check(res):
    """the verification mudlib itself must compile: otherwise every oracle is blind (exit 2, not a verdict)"""
    if getattr(res, 'exit', None) and res.exit[0] == 'exit' and res.exit[1] == 77:
        return   # a sanitizer abort is reported as such
    for e in res.events:
        if e.kind == 'R' and e.rest.startswith('LOGERR '):
            w = e.rest.split(' ')
            if len(w) > 1 and w[1].lstrip('/') in HARNESS_LPC:
                raise RuntimeError('verification mudlib does not compile: ' + e.rest)


def _task(args):
    """one seeded run: generate, execute, check.  Returns a small summary dict."""
    i, seed, tier, mode = args
    try:
        rng = random.Random(seed)
        plan = _prop.gen(rng, tier, i)
        res = _worker.run(plan)
        harness_compile_check(res)
        viols = _prop.check(plan, res)
        summ = {'i': i, 'seed': seed, 'hash': res.hash, 'exit': res.exit, 'violations': [v.to_json() for v in viols],
                'stats': res.stats(), 'nontrivial': False, 'abstract': '', 'probes': {}, 'vus': res.events[-1].vus if res.events else 0,
                'n_events': len(res.events), 'mode': mode}
        if hasattr(_prop, 'summarize'):
            summ.update(_prop.summarize(plan, res))
        if viols or mode == 'sample':
            summ['plan'] = plan.to_json()
        if mode == 'sample':
            summ['trace'] = [repr(e) for e in res.events if e.kind not in ('cycle', 'epoll', 'D')][:60]
        return summ
    except Exception as ex:
        import traceback
        return {'i': i, 'seed': seed, 'error': traceback.format_exc(), 'violations': [], 'hash': '', 'mode': mode}


def _task_hash(args):
    """selftest of a sweep module: its scenario (and one armed fault point, if the module can arm one) executed, event logs hashed"""
    i, seed, tier, mode = args
    try:
        plan = _prop.gen(random.Random(seed), tier, i)
        res = _worker.run(plan)
        h = res.hash
        if hasattr(_prop, 'points') and hasattr(_prop, 'with_fault'):
            pts = _prop.points(plan, res, tier, random.Random(seed ^ 0x5bd1e995))
            if pts:
                k = pts[len(pts) // 2]
                h += '+' + _worker.run(_prop.with_fault(plan, k)).hash
        return {'i': i, 'seed': seed, 'hash': h}
    except Exception:
        import traceback
        return {'i': i, 'seed': seed, 'error': traceback.format_exc(), 'hash': ''}


def run_plan_once(propmod, plan, variant='asan'):
    w = Worker(variant, exe=getattr(propmod, 'EXE', 'nsim'))
    try:
        res = w.run(plan)
    finally:
        w.stop()
    return res


# ---------------------------------------------------------------------------------- shrinking
def shrink(propmod, plan, target_cls, worker, max_runs=400):
    """ddmin over cycles, then over steps inside cycles, then prop-specific argument shrinking;
    keeps only candidates that still fail with the same violation class."""
    runs = [0]
    if os.environ.get('VERIF_NO_SHRINK'):      # (for storing a finding's plan as generated)
        return plan, 0

    def fails(p):
        if runs[0] >= max_runs:
            return False
        runs[0] += 1
        res = worker.run(p)
        return any(v.cls == target_cls for v in propmod.check(p, res))

    cur = plan.copy()
    if isinstance(plan.meta, dict) and plan.meta.get('no_shrink'):
        return cur, 0      # the plan's trailing cycles are what gives the driver time to serve: a shorter plan asks another question
    if getattr(propmod, 'NO_CYCLE_SHRINK', False):
        # the plan has a structure (identical rounds) that cycle removal would break: the module shrinks its own template
        if hasattr(propmod, 'shrink_args'):
            cur = propmod.shrink_args(cur, fails)
        return cur, runs[0]
    # ddmin over cycles (the first meta['keep_cycles'] cycles are the plan's fixed preamble and stay)
    n = 2
    keep = int(cur.meta.get('keep_cycles', 0)) if isinstance(cur.meta, dict) else 0
    while len(cur.cycles) >= 2 and runs[0] < max_runs:
        chunk = max(1, len(cur.cycles) // n)
        reduced = False
        for start in range(keep, len(cur.cycles), chunk):
            cand = cur.copy()
            del cand.cycles[start:start + chunk]
            if cand.cycles and fails(cand):
                cur = cand; n = max(n - 1, 2); reduced = True
                break
        if not reduced:
            if chunk == 1:
                break
            n = min(n * 2, len(cur.cycles))
    # steps inside cycles
    ci = keep
    while ci < len(cur.cycles) and runs[0] < max_runs:
        si = 0
        while len(cur.cycles[ci]) > 1 and si < len(cur.cycles[ci]) and runs[0] < max_runs:
            cand = cur.copy()
            del cand.cycles[ci][si]
            if fails(cand): cur = cand
            else: si += 1
        ci += 1
    # header lines that are optional (opt/cfg/file) -- try dropping opts only
    hi = 0
    while hi < len(cur.header) and runs[0] < max_runs:
        if cur.header[hi].startswith('opt ') and not getattr(propmod, 'KEEP_OPTS', False):
            cand = cur.copy(); del cand.header[hi]
            if fails(cand):
                cur = cand; continue
        hi += 1
    if hasattr(propmod, 'shrink_args'):
        cur = propmod.shrink_args(cur, fails)
    return cur, runs[0]


# ---------------------------------------------------------------------------------- known findings
def load_known():
    p = os.path.join(ROOT, 'known_findings.json')
    if not os.path.exists(p):
        return []
    return json.load(open(p))


def match_known(known, prop, cls):
    for k in known:
        if k.get('status') == 'known' and k['property'] == prop and re.fullmatch(k['signature'], cls):
            return k
    return None


def regression_replays(propmod, prop, variant, known):
    """the stored plans of repaired findings (known_findings.json, status fixed) are run again with every check: a finding that
    returns is reported with its own replay file, whether or not the seeded search happens to meet it again"""
    out = []; n = 0
    entries = [k for k in known if k.get('status') == 'fixed' and k.get('property') == prop and k.get('replay')]
    if not entries: return out, 0
    w = Worker(variant, exe=getattr(propmod, 'EXE', 'nsim')); w.start()
    try:
        for k in entries:
            path = os.path.join(ROOT, k['replay'])
            if not os.path.exists(path) or not path.endswith('.json'): continue      # (two early findings are stored as plan text)
            try:
                plan = Plan.from_json(json.load(open(path))['plan'])
                if hasattr(propmod, 'check_point'):
                    base = w.run(propmod.without_fault(plan)); res = w.run(plan)
                    info = propmod.base_info(propmod.without_fault(plan), base)
                    viols = propmod.check_point(plan, res, info) if propmod.has_fault(plan) else propmod.check_base(plan, res)
                else:
                    res = w.run(plan); viols = propmod.check(plan, res)
            except Exception as ex:
                # a plan stored by an older version of a module that the module can no longer judge: said, not counted
                sys.stderr.write('regression replay %s could not be judged: %s: %s\n' % (k['replay'], type(ex).__name__, str(ex)[:120]))
                try: w.stop()
                except Exception: pass
                w = Worker(variant, exe=getattr(propmod, 'EXE', 'nsim')); w.start()
                continue
            n += 1
            viols = [v for v in viols if not match_known(known, prop, v.cls)]
            if viols: out.append((path, viols[0], k))
    finally:
        w.stop()
    return out, n


# ---------------------------------------------------------------------------------- driver
def run_check(propmod, prop, tier, verif_seed, n_runs, variant='asan', jobs=None, replay=None):
    """returns exit code"""
    t0 = time.time()
    build(variant, tools=getattr(propmod, 'BUILD_TOOLS', ('build_repo.sh', 'build_sim.sh')))
    jobs = jobs or int(os.environ.get('VERIF_JOBS', '16'))
    known = load_known()
    os.makedirs(os.path.join(ROOT, 'evidence'), exist_ok=True)
    os.makedirs(os.path.join(ROOT, 'replays'), exist_ok=True)

    if replay:
        d = json.load(open(replay))
        plan = Plan.from_json(d['plan'])
        res = run_plan_once(propmod, plan, variant)
        viols = propmod.check(plan, res)
        for e in res.events:
            if e.kind not in ('cycle', 'epoll'):
                print(repr(e))
        if res.stderr: print(res.stderr)
        print('event_log_sha256', res.hash)
        for v in viols:
            print('VIOLATION property=%s replay=%s  # %s' % (prop, replay, v))
        return 1 if viols else 0

    tasks = []
    for i in range(n_runs):
        tasks.append((i, run_seed(verif_seed, prop, i), tier, 'sample' if i < 3 else 'run'))
    n_det = max(8, n_runs // 33)
    det_idx = [int(k * n_runs / n_det) for k in range(n_det)]
    for i in det_idx:
        tasks.append((i, run_seed(verif_seed, prop, i), tier, 'det'))

    ctx = multiprocessing.get_context('fork')
    results = []
    with ctx.Pool(jobs, initializer=_init, initargs=(propmod.__name__, variant)) as pool:
        hangs = 0
        for r in pool.imap_unordered(_task, tasks, chunksize=4):
            results.append(r)
            if r.get('exit') in (('exit', 76), ('wall-timeout', 0), ['exit', 76], ['wall-timeout', 0]) and r.get('mode') != 'det':
                hangs += 1
                if hangs >= 3:
                    sys.stderr.write('batch cut short: %d runs hit the wall-clock limit\n' % hangs)
                    pool.terminate()
                    break

    main = {r['i']: r for r in results if r.get('mode') != 'det'}
    det = [r for r in results if r.get('mode') == 'det' and r['i'] in main]
    errors = [r for r in results if 'error' in r]
    if errors:
        sys.stderr.write(errors[0]['error'])
        sys.stderr.write('HARNESS ERROR in %d runs (first seed index %d)\n' % (len(errors), errors[0]['i']))
        return 2
    det_bad = [r for r in det if main[r['i']]['hash'] != r['hash']]
    if det_bad:
        sys.stderr.write('HARNESS NONDETERMINISM: %d of %d re-executed seeds differ (first i=%d)\n' % (len(det_bad), len(det), det_bad[0]['i']))
        return 2

    # violations -> classes
    by_cls = {}
    for i in sorted(main):
        for v in main[i]['violations']:
            by_cls.setdefault(v['class'], []).append(i)
    new_cls = []
    known_hits = {}
    for cls, idxs in sorted(by_cls.items()):
        k = match_known(known, prop, cls)
        if k: known_hits[cls] = (k, idxs)
        else: new_cls.append((cls, idxs))

    exit_code = 0
    reported = []
    w = Worker(variant, exe=getattr(propmod, 'EXE', 'nsim')); w.start()
    try:
        for cls, idxs in new_cls[:5]:
            i = idxs[0]
            plan = Plan.from_json(main[i]['plan'])
            small, nruns = shrink(propmod, plan, cls, w)
            # gate: must reproduce twice in fresh processes with equal hashes
            r1 = run_plan_once(propmod, small, variant); r2 = run_plan_once(propmod, small, variant)
            v1 = [v for v in propmod.check(small, r1) if v.cls == cls]
            v2 = [v for v in propmod.check(small, r2) if v.cls == cls]
            # a run cut by the wall-clock alarm stops at an arbitrary event: its log cannot be hash-stable, the class must reproduce
            if not v1 or not v2 or (r1.hash != r2.hash and not cls.endswith('/hang/wallclock')):
                sys.stderr.write('HARNESS: violation %s (seed index %d) does not replay deterministically\n' % (cls, i))
                sys.stderr.write('  original report: %s\n' % json.dumps(main[i]['violations'])[:1500])
                try:
                    os.makedirs(os.path.join(ROOT, 'replays'), exist_ok=True)
                    json.dump({'property': prop, 'plan': main[i]['plan'], 'violations': main[i]['violations'], 'note': 'did not replay'}, open(os.path.join(ROOT, 'replays', 'tmp-noreplay-%s-%d.json' % (prop, i)), 'w'), indent=1)
                except Exception: pass
                exit_code = max(exit_code, 2)
                continue
            name = re.sub(r'[^A-Za-z0-9_.-]+', '_', cls)[:80]
            path = os.path.join(ROOT, 'replays', '%s-%d.json' % (name, main[i]['seed'] % 1000000))
            json.dump({'property': prop, 'engine': 'W-loop', 'verif_seed': verif_seed, 'run_seed': main[i]['seed'], 'tier': tier,
                       'plan': small.to_json(), 'plan_text': small.lines(),
                       'violation': v1[0].to_json(), 'event_log_sha256': r1.hash,
                       'minimised_from_cycles': len(plan.cycles), 'minimised_to_cycles': len(small.cycles), 'shrink_runs': nruns,
                       'occurrences_in_batch': len(idxs)}, open(path, 'w'), indent=1)
            print('VIOLATION property=%s replay=%s  # %s (%d runs)' % (prop, path, v1[0], len(idxs)))
            reported.append(cls)
            exit_code = max(exit_code, 1)
    finally:
        w.stop()
    for cls, (k, idxs) in sorted(known_hits.items()):
        print('KNOWN-FINDING: property=%s %s [%s; %d runs]' % (prop, k['what_fails'], cls, len(idxs)))
    back, n_regr = regression_replays(propmod, prop, variant, known)
    for path, v, k in back:
        print('VIOLATION property=%s replay=%s  # returned (repaired in %s): %s' % (prop, path, k.get('commit', '?'), v))
        exit_code = max(exit_code, 1)

    # evidence
    ev = make_evidence(propmod, prop, tier, verif_seed, main, det, by_cls, known_hits, time.time() - t0)
    ev['coverage']['regression_replays'] = {'replayed': n_regr, 'returned': len(back)}
    ev['violations'] += len(back)
    json.dump(ev, open(os.path.join(ROOT, 'evidence', prop + '.json'), 'w'), indent=1)
    print('%s %s: %d runs, %d distinct non-trivial, %d violation classes (%d known), %.1fs' % (
        prop, tier, len(main), ev['coverage']['distinct_nontrivial'], len(by_cls), len(known_hits), time.time() - t0))
    if ev['coverage']['distinct_nontrivial'] < 2 and exit_code == 0:
        sys.stderr.write('HARNESS: fewer than two distinct non-trivial runs - the generator is not exercising anything\n')
        return 2
    return exit_code


def make_evidence(propmod, prop, tier, verif_seed, main, det, by_cls, known_hits, wall):
    absset = set()
    faults = {}
    probes = {}
    vus = 0
    for r in main.values():
        if r.get('nontrivial') and r.get('abstract'):
            absset.add(r['abstract'])
        for k, v in r.get('stats', {}).items():
            faults[k] = faults.get(k, 0) + v
        for k, v in r.get('probes', {}).items():
            probes[k] = probes.get(k, 0) + v
        vus += r.get('vus', 0)
    samples = []
    for i in sorted(main)[:3]:
        r = main[i]
        samples.append({'seed': r['seed'], 'plan': Plan.from_json(r['plan']).lines() if 'plan' in r else None, 'trace': r.get('trace', [])[:40]})
    n = len(main)
    return {
        'property_id': prop, 'tier': tier, 'seed': verif_seed, 'level': getattr(propmod, 'LEVEL', 'exploration'),
        'coverage': {
            'evaluations': n,
            'distinct_nontrivial': len(absset),
            'rule': getattr(propmod, 'RULE', ''),
            'samples': samples,
            'simulated_seconds': round(vus / 1e6, 1),
            'runs_per_hour': int(n / wall * 3600) if wall > 0 else 0,
            'fault_and_event_counters': faults,
            'reach_probes': probes,
            'determinism_reruns': len(det), 'determinism_mismatches': 0,
            'components': getattr(propmod, 'COMPONENTS', {}),
            'violation_classes': {k: len(v) for k, v in by_cls.items()},
            'known_findings_matched': sorted(known_hits),
        },
        'assumptions': getattr(propmod, 'ASSUMPTIONS', []),
        'wall_s': round(wall, 2),
        'violations': sum(1 for c in by_cls if c not in known_hits),
    }


def selftest(propmod, prop, n, verif_seed=1, variant='asan'):
    """determinism: the same seeds at two worker counts (different processes, different neighbours) must give
    bit-identical event logs"""
    build(variant, tools=getattr(propmod, 'BUILD_TOOLS', ('build_repo.sh', 'build_sim.sh')))
    ctx = multiprocessing.get_context('fork')
    hashes = []
    for jobs in (16, 5):
        tasks = [(i, run_seed(verif_seed, prop, i), 'quick', 'run') for i in range(n)]
        if jobs == 5:
            tasks.reverse()
        with ctx.Pool(jobs, initializer=_init, initargs=(propmod.__name__, variant)) as pool:
            res = {r['i']: r for r in pool.imap_unordered(_task if hasattr(propmod, 'check') else _task_hash, tasks, chunksize=7)}
        hashes.append(res)
    bad = [i for i in range(n) if hashes[0][i].get('hash') != hashes[1][i].get('hash') or 'error' in hashes[0][i]]
    print('selftest %s: %d seeds x 2 worker counts, %d mismatches%s' % (prop, n, len(bad), (' first=%d' % bad[0]) if bad else ''))
    if bad and 'error' in hashes[0][bad[0]]: print(hashes[0][bad[0]]['error'])
    return 0 if not bad else 2


# ---------------------------------------------------------------------------------- fault-point sweeps
# A sweep property module provides:
#   gen(rng, tier, i) -> Plan                      scenario (fault-free)
#   points(plan, base_result, tier, rng) -> [k...] fault points to enumerate (instruction indices)
#   with_fault(plan, k) -> Plan                    the scenario with the fault armed at point k
#   base_info(plan, base_result) -> dict           what the per-point oracle needs from the fault-free run
#   check_point(plan_k, res, info) -> [Violation]
#   check_base(plan, res) -> [Violation]           oracle on the fault-free run itself
def _sweep_base(args):
    i, seed, tier = args
    try:
        rng = random.Random(seed)
        plan = _prop.gen(rng, tier, i)
        res = _worker.run(plan)
        harness_compile_check(res)
        viols = _prop.check_base(plan, res)
        info = _prop.base_info(plan, res)
        pts = _prop.points(plan, res, tier, random.Random(seed ^ 0x5bd1e995))
        return {'i': i, 'seed': seed, 'violations': [v.to_json() for v in viols], 'info': info, 'points': pts, 'hash': res.hash,
                'plan': plan.to_json(), 'exit': res.exit, 'vus': res.events[-1].vus if res.events else 0}
    except Exception:
        import traceback
        return {'i': i, 'seed': seed, 'error': traceback.format_exc()}


def _sweep_point(args):
    i, seed, tier, k, info, mode = args
    try:
        rng = random.Random(seed)
        import inspect
        if len(inspect.signature(_prop.with_fault).parameters) >= 3:
            plan = _prop.with_fault(_prop.gen(rng, tier, i), k, info)
        else:
            plan = _prop.with_fault(_prop.gen(rng, tier, i), k)
        res = _worker.run(plan)
        viols = _prop.check_point(plan, res, info)
        out = {'i': i, 'k': k, 'seed': seed, 'hash': res.hash, 'violations': [v.to_json() for v in viols], 'exit': res.exit, 'mode': mode,
               'stats': res.stats(), 'vus': res.events[-1].vus if res.events else 0}
        if hasattr(_prop, 'summarize_point'):
            out.update(_prop.summarize_point(plan, res, info))
        if viols:
            out['plan'] = plan.to_json()
        return out
    except Exception:
        import traceback
        return {'i': i, 'k': k, 'seed': seed, 'error': traceback.format_exc(), 'violations': [], 'mode': mode}


def run_sweep(propmod, prop, tier, verif_seed, n_scen, variant='asan', jobs=None, replay=None):
    t0 = time.time()
    build(variant)
    jobs = jobs or int(os.environ.get('VERIF_JOBS', '16'))
    known = load_known()
    os.makedirs(os.path.join(ROOT, 'evidence'), exist_ok=True)
    os.makedirs(os.path.join(ROOT, 'replays'), exist_ok=True)
    if replay:
        d = json.load(open(replay))
        plan = Plan.from_json(d['plan'])
        w = Worker(variant)
        try:
            base = w.run(propmod.without_fault(plan))
            res = w.run(plan)
        finally:
            w.stop()
        info = propmod.base_info(propmod.without_fault(plan), base)
        viols = propmod.check_point(plan, res, info) if propmod.has_fault(plan) else propmod.check_base(plan, res)
        for e in res.events:
            if e.kind not in ('cycle', 'epoll'): print(repr(e))
        if res.stderr: print(res.stderr)
        print('event_log_sha256', res.hash)
        for v in viols: print('VIOLATION property=%s replay=%s  # %s' % (prop, replay, v))
        return 1 if viols else 0
    ctx = multiprocessing.get_context('fork')
    with ctx.Pool(jobs, initializer=_init, initargs=(propmod.__name__, variant)) as pool:
        bases = list(pool.imap_unordered(_sweep_base, [(i, run_seed(verif_seed, prop, i), tier) for i in range(n_scen)], chunksize=1))
        errors = [b for b in bases if 'error' in b]
        if errors:
            sys.stderr.write(errors[0]['error']); sys.stderr.write('HARNESS ERROR in %d scenarios\n' % len(errors)); return 2
        bases.sort(key=lambda b: b['i'])
        tasks = []
        for b in bases:
            for k in b['points']:
                tasks.append((b['i'], b['seed'], tier, k, b['info'], 'run'))
        ndet = max(8, len(tasks) // 40)
        det_tasks = [tasks[int(j * len(tasks) / ndet)][:5] + ('det',) for j in range(ndet)] if tasks else []
        results = []
        hangs = 0
        for r in pool.imap_unordered(_sweep_point, tasks + det_tasks, chunksize=8):
            results.append(r)
            if r.get('exit') in (('exit', 76), ('wall-timeout', 0)) and r.get('mode') != 'det':
                hangs += 1
                if hangs >= 3:
                    pool.terminate(); break
    errors = [r for r in results if 'error' in r]
    if errors:
        sys.stderr.write(errors[0]['error']); sys.stderr.write('HARNESS ERROR in %d points\n' % len(errors)); return 2
    main = {(r['i'], r['k']): r for r in results if r.get('mode') != 'det'}
    det = [r for r in results if r.get('mode') == 'det' and (r['i'], r['k']) in main]
    det_bad = [r for r in det if main[(r['i'], r['k'])]['hash'] != r['hash']]
    if det_bad:
        sys.stderr.write('HARNESS NONDETERMINISM: %d of %d re-executed points differ (first %s)\n' % (len(det_bad), len(det), (det_bad[0]['i'], det_bad[0]['k'])))
        return 2
    by_cls = {}
    for b in bases:
        for v in b['violations']:
            by_cls.setdefault(v['class'], []).append(('base', b['i'], None))
    for key in sorted(main):
        for v in main[key]['violations']:
            by_cls.setdefault(v['class'], []).append(('point', key[0], key[1]))
    basemap = {b['i']: b for b in bases}
    new_cls = []; known_hits = {}
    for cls, occ in sorted(by_cls.items()):
        kf = match_known(known, prop, cls)
        if kf: known_hits[cls] = (kf, occ)
        else: new_cls.append((cls, occ))
    exit_code = 0
    w = Worker(variant); w.start()
    try:
        for cls, occ in new_cls[:5]:
            kind, i, k = occ[0]
            if kind == 'base':
                plan = Plan.from_json(basemap[i]['plan'])
                fails = lambda p: any(v.cls == cls for v in propmod.check_base(p, w.run(p)))
            else:
                plan = Plan.from_json(main[(i, k)]['plan'])
                def fails(p):
                    if not propmod.has_fault(p): return False
                    base = w.run(propmod.without_fault(p))
                    info = propmod.base_info(propmod.without_fault(p), base)
                    return any(v.cls == cls for v in propmod.check_point(p, w.run(p), info))
            small, nruns = _shrink_with(plan, fails)
            ok1 = fails(small); ok2 = fails(small)
            if not (ok1 and ok2):
                sys.stderr.write('HARNESS: violation %s (scenario %d point %s) does not replay\n' % (cls, i, k)); exit_code = max(exit_code, 2); continue
            name = re.sub(r'[^A-Za-z0-9_.-]+', '_', cls)[:80]
            path = os.path.join(ROOT, 'replays', '%s-%d.json' % (name, basemap[i]['seed'] % 1000000))
            r1 = w.run(small)
            vv = [v for v in (propmod.check_base(small, r1) if kind == 'base' else propmod.check_point(small, r1, propmod.base_info(propmod.without_fault(small), w.run(propmod.without_fault(small))))) if v.cls == cls]
            json.dump({'property': prop, 'engine': 'W-sweep', 'verif_seed': verif_seed, 'run_seed': basemap[i]['seed'], 'tier': tier, 'fault_point': k,
                       'plan': small.to_json(), 'plan_text': small.lines(), 'violation': vv[0].to_json() if vv else {'class': cls}, 'event_log_sha256': r1.hash,
                       'minimised_from_cycles': len(plan.cycles), 'minimised_to_cycles': len(small.cycles), 'shrink_runs': nruns, 'occurrences_in_batch': len(occ)},
                      open(path, 'w'), indent=1)
            print('VIOLATION property=%s replay=%s  # %s (%d points)' % (prop, path, vv[0] if vv else cls, len(occ)))
            exit_code = max(exit_code, 1)
    finally:
        w.stop()
    for cls, (kf, occ) in sorted(known_hits.items()):
        print('KNOWN-FINDING: property=%s %s [%s; %d points]' % (prop, kf['what_fails'], cls, len(occ)))
    back, n_regr = regression_replays(propmod, prop, variant, known)
    for path, v, k in back:
        print('VIOLATION property=%s replay=%s  # returned (repaired in %s): %s' % (prop, path, k.get('commit', '?'), v))
        exit_code = max(exit_code, 1)
    # evidence
    wall = time.time() - t0
    absset = set(); sites = {}; probes = {}; faults = {}
    for r in main.values():
        if r.get('nontrivial') and r.get('abstract'): absset.add(r['abstract'])
        for kk, vv in r.get('probes', {}).items(): probes[kk] = probes.get(kk, 0) + vv
        for kk, vv in r.get('stats', {}).items(): faults[kk] = faults.get(kk, 0) + vv
    samples = []
    for b in bases[:3]:
        samples.append({'seed': b['seed'], 'scenario': Plan.from_json(b['plan']).lines()[-6:], 'fault_points': len(b['points']),
                        'first_points': b['points'][:10]})
    evd = {'property_id': prop, 'tier': tier, 'seed': verif_seed, 'level': getattr(propmod, 'LEVEL', 'fault_enumeration'),
           'coverage': {'evaluations': len(main) + len(bases), 'distinct_nontrivial': len(absset), 'rule': getattr(propmod, 'RULE', ''), 'samples': samples,
                        'scenarios': len(bases), 'fault_points': len(main), 'exhaustive': False,
                        'points_per_scenario': {'min': min([len(b['points']) for b in bases] or [0]), 'max': max([len(b['points']) for b in bases] or [0])},
                        'runs_per_hour': int((len(main) + len(bases)) / wall * 3600) if wall > 0 else 0,
                        'simulated_seconds': round(sum(r.get('vus', 0) for r in main.values()) / 1e6, 1),
                        'fault_and_event_counters': faults, 'reach_probes': probes,
                        'determinism_reruns': len(det), 'determinism_mismatches': 0, 'components': getattr(propmod, 'COMPONENTS', {}),
                        'violation_classes': {kk: len(vv) for kk, vv in by_cls.items()}, 'known_findings_matched': sorted(known_hits)},
           'assumptions': getattr(propmod, 'ASSUMPTIONS', []), 'wall_s': round(wall, 2), 'violations': sum(1 for c in by_cls if c not in known_hits)}
    evd['coverage']['regression_replays'] = {'replayed': n_regr, 'returned': len(back)}
    evd['violations'] += len(back)
    json.dump(evd, open(os.path.join(ROOT, 'evidence', prop + '.json'), 'w'), indent=1)
    print('%s %s: %d scenarios, %d fault points, %d distinct non-trivial, %d violation classes (%d known), %.1fs' % (
        prop, tier, len(bases), len(main), len(absset), len(by_cls), len(known_hits), wall))
    if len(absset) < 2 and exit_code == 0:
        sys.stderr.write('HARNESS: the sweep reached fewer than two distinct fault points - the scenarios are not exercising anything\n')
        return 2
    return exit_code


def _shrink_with(plan, fails, max_runs=300):
    """ddmin over cycles and steps with a caller-supplied predicate"""
    runs = [0]
    def f(p):
        if runs[0] >= max_runs: return False
        runs[0] += 1
        return fails(p)
    cur = plan.copy()
    if isinstance(plan.meta, dict) and plan.meta.get('no_shrink'):
        return cur, 0      # every step of the plan is part of what is judged (a save before a restore): removing one changes the question
    n = 2
    while len(cur.cycles) >= 2 and runs[0] < max_runs:
        chunk = max(1, len(cur.cycles) // n)
        reduced = False
        for start in range(0, len(cur.cycles), chunk):
            cand = cur.copy(); del cand.cycles[start:start + chunk]
            if cand.cycles and f(cand):
                cur = cand; n = max(n - 1, 2); reduced = True; break
        if not reduced:
            if chunk == 1: break
            n = min(n * 2, len(cur.cycles))
    return cur, runs[0]
