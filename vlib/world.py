# Helpers shared by the W-loop property modules: plan steps, mudlib knobs, record parsing.
from .core import enc, dec, Plan

TICK = 2000000

PORT_KINDS = ('telnet', 'ascii', 'binary')


def mcfg(defs):
    """contents of /mcfg.h from a dict of defines"""
    out = []
    d = {'USER_FILE': '"/user"'}
    d.update(defs)
    for k, v in d.items():
        out.append('#define %s %s' % (k, v))
    return '\n'.join(out) + '\n'


def lpc_str(s):
    return '"' + s.replace('\\', '\\\\').replace('"', '\\"') + '"'


def connect(port_idx, cid): return 'connect %d %d' % (port_idx, cid)
def send(cid, data, segs=None): return 'send %d %s %s' % (cid, enc(data), ','.join(str(x) for x in segs) if segs else '-')
def eof(cid): return 'eof %d' % cid
def rst(cid): return 'rst %d' % cid
def tick(dt=TICK): return 'tick %d' % dt
def stall(dt, n): return 'stall %d %d' % (dt, n)
def fault(k, kind='error'): return 'fault %d %s' % (k, kind)
def console(text): return 'console %s' % enc(text)
def sendscript(cid, items): return 'sendscript %d %s' % (cid, ','.join(items))


def nl(kind):
    return '\r\n' if kind == 'telnet' else '\n'


def parse_step(s):
    t = s.split(' ')
    return t[0], t[1:]


def rand_segs(rng, n):
    """random segmentation of n bytes"""
    segs = []
    left = n
    while left > 0:
        k = rng.choice((1, 1, 2, 3, 5, 8, 13, 40, 200, left))
        k = min(k, left)
        segs.append(k); left -= k
    return segs


class Recs:
    """indexed view of the LPC-level records (R events) of a run"""

    def __init__(self, res):
        self.items = []  # (index in events, cycle, words)
        for idx, e in enumerate(res.events):
            if e.kind == 'R':
                self.items.append((idx, e.cycle, e.rest.split(' ')))

    def of(self, head):
        return [it for it in self.items if it[2] and it[2][0] == head]
