// tsim: thread simulator (T engine) for C19.  Real code (lib/async, lib/port), real threads, but exactly one thread
// runs at a time: every intercepted synchronisation / blocking call is a yield point at which a seeded scheduler
// decides who runs next.  Mutexes, condition variables, eventfd, epoll, stdin, sleep and the clock are modelled by
// the scheduler, so "blocked" vs "runnable" is always known, timed waits use a virtual clock, and "nothing runnable
// and no deadline" is a detected deadlock.
//   tsim serve : scenarios on stdin terminated by "." ; one forked child per scenario ; event log on stdout
#include <config.h>
#include <pthread.h>
#include <dlfcn.h>
#include <unistd.h>
#include <fcntl.h>
#include <errno.h>
#include <signal.h>
#include <stdarg.h>
#include <stdint.h>
#include <stdio.h>
#include <stdlib.h>
#include <string.h>
#include <time.h>
#include <sys/epoll.h>
#include <sys/eventfd.h>
#include <sys/select.h>
#include <sys/syscall.h>
#include <sys/wait.h>
#include <sys/mman.h>
#include <sys/personality.h>
#include <linux/futex.h>
#include <atomic>
#include <string>
#include <vector>
#include <map>
#include <deque>

extern "C" {
#include "async/async_runtime.h"
#include "async/async_queue.h"
#include "async/async_worker.h"
#include "async/console_worker.h"
#include "port/timer.h"
#include "port/sync.h"
}

// ------------------------------------------------------------------ real functions
typedef int (*pc_t)(pthread_t *, const pthread_attr_t *, void *(*)(void *), void *);
typedef int (*pj_t)(pthread_t, void **);
static pc_t real_pthread_create; static pj_t real_pthread_join;
static ssize_t (*real_write)(int, const void *, size_t);
static ssize_t (*real_read)(int, void *, size_t);
static int (*real_close)(int);
#ifdef TSIM_TSAN
#if 1
// the sanitizer runtime is linked statically into this executable, so RTLD_NEXT would skip its interceptors
extern "C" int __interceptor_pthread_create(pthread_t *, const pthread_attr_t *, void *(*)(void *), void *);
extern "C" int __interceptor_pthread_join(pthread_t, void **);
#define HAVE_TSAN_INTERCEPTORS 1
#endif
#endif
static void resolve() {
  if (real_pthread_create) return;
#ifdef HAVE_TSAN_INTERCEPTORS
  real_pthread_create = __interceptor_pthread_create;
  real_pthread_join = __interceptor_pthread_join;
#else
  real_pthread_create = (pc_t)dlsym(RTLD_NEXT, "pthread_create");
  real_pthread_join = (pj_t)dlsym(RTLD_NEXT, "pthread_join");
#endif
  real_write = (ssize_t(*)(int, const void *, size_t))dlsym(RTLD_NEXT, "write");
  real_read = (ssize_t(*)(int, void *, size_t))dlsym(RTLD_NEXT, "read");
  real_close = (int (*)(int))dlsym(RTLD_NEXT, "close");
}

// ------------------------------------------------------------------ scheduler state
enum St { RUNNABLE, B_MUTEX, B_COND, B_JOIN, B_SLEEP, B_EPOLL, B_SELECT, DONE };
struct Th {
  int id; pthread_t real; St st = RUNNABLE; std::atomic<int> go{0};
  const void *obj = nullptr;   // mutex / cond waited for
  const void *cond_mutex = nullptr;
  int64_t deadline = -1;       // virtual ns, -1 = none
  bool timed_out = false; bool signaled = false;
  int join_target = -1;
  void *(*fn)(void *) = nullptr; void *arg = nullptr; void *ret = nullptr;
  bool joined = false;
};
static bool sim_on = false;
static std::vector<Th *> ths;
static __thread int my_id = -1;
static int current = 0;
static int64_t vns = 0;
static uint64_t rng_state = 1;
static long yields = 0, max_yields = 200000;
static long spurious_pct = 0;         // probability (percent) of a spurious condvar wake-up at a yield
struct Mx { int owner = -1; };
static std::map<const void *, Mx> mxs;
static std::string evbuf;
static std::map<std::string, long> stats;

static uint64_t rnd() {
  uint64_t x = (rng_state += 0x9e3779b97f4a7c15ULL);
  x = (x ^ (x >> 30)) * 0xbf58476d1ce4e5b9ULL; x = (x ^ (x >> 27)) * 0x94d049bb133111ebULL;
  return x ^ (x >> 31);
}
static void ev(const char *fmt, ...) {
  char b[1024]; int n = snprintf(b, sizeof b, "E %ld %lld T%d ", yields, (long long)vns, my_id);
  va_list ap; va_start(ap, fmt); n += vsnprintf(b + n, sizeof b - n, fmt, ap); va_end(ap);
  if (n > (int)sizeof b - 2) n = sizeof b - 2;
  b[n++] = '\n'; evbuf.append(b, n);
}
static void flush_ev() { resolve(); size_t o = 0; while (o < evbuf.size()) { ssize_t k = real_write(1, evbuf.data() + o, evbuf.size() - o); if (k <= 0) break; o += k; } evbuf.clear(); }
static void die(const char *what) { ev("%s", what); flush_ev(); _exit(75); }

#ifdef TSIM_TSAN
#define TSAN_ON 1
#endif
#ifdef TSAN_ON
extern "C" void __tsan_acquire(void *addr); extern "C" void __tsan_release(void *addr);
#define NOTSAN __attribute__((no_sanitize("thread")))
#define TS_ACQ(p) __tsan_acquire((void *)(p))
#define TS_REL(p) __tsan_release((void *)(p))
#else
#define NOTSAN
#define TS_ACQ(p)
#define TS_REL(p)
#endif
// parking uses raw futex words and uninstrumented accesses, so that the scheduler itself adds no happens-before
// edges between the threads it serialises (TSan must still see unsynchronised sharing in the code under test)
NOTSAN static void futex_wait(std::atomic<int> *a) { int *w = (int *)a; while (__atomic_load_n(w, __ATOMIC_RELAXED) == 0) syscall(SYS_futex, w, FUTEX_WAIT, 0, NULL, NULL, 0); __atomic_store_n(w, 0, __ATOMIC_RELAXED); }
NOTSAN static void futex_wake(std::atomic<int> *a) { int *w = (int *)a; __atomic_store_n(w, 1, __ATOMIC_RELAXED); syscall(SYS_futex, w, FUTEX_WAKE, 1, NULL, NULL, 0); }

static bool eventfd_readable(); static bool stdin_readable(); static bool sock_readable();
static bool wakeable(Th *t) {
  switch (t->st) {
  case RUNNABLE: return true;
  case B_MUTEX: return mxs[t->obj].owner == -1;
  case B_COND: return t->signaled && mxs[t->cond_mutex].owner == -1;
  case B_JOIN: return ths[t->join_target]->st == DONE;
  case B_EPOLL: return eventfd_readable() || sock_readable();
  case B_SELECT: return stdin_readable();
  default: return false;
  }
}
// hand the baton to a seeded choice among the threads that can run; jumps the clock when only timers remain
static void schedule() {
  for (;;) {
    if (++yields > max_yields) die("HANG yields");
    vns += 1000;
    std::vector<int> can;
    for (Th *t : ths) {
      if (t->st == DONE) continue;
      if (t->deadline >= 0 && t->deadline <= vns && t->st != RUNNABLE) {     // timed wait / sleep expired
        if (t->st == B_COND) { if (mxs[t->cond_mutex].owner == -1) { t->timed_out = !t->signaled; can.push_back(t->id); } }
        else { t->timed_out = true; can.push_back(t->id); }
        continue;
      }
      if (wakeable(t)) can.push_back(t->id);
      else if (t->st == B_COND && spurious_pct && mxs[t->cond_mutex].owner == -1 && (long)(rnd() % 100) < spurious_pct) { can.push_back(t->id); stats["spurious_wakeups"]++; }
    }
    if (can.empty()) {
      int64_t next = -1;
      for (Th *t : ths) if (t->st != DONE && t->deadline >= 0 && (next < 0 || t->deadline < next)) next = t->deadline;
      if (next < 0) die("DEADLOCK no runnable thread and no deadline");
      if (next > vns) vns = next;
      stats["clock_jumps"]++;
      continue;
    }
    int pick = can[rnd() % can.size()];
    Th *t = ths[pick];
    // complete the blocking operation for the chosen thread
    if (t->st == B_MUTEX) mxs[t->obj].owner = t->id;
    else if (t->st == B_COND) mxs[t->cond_mutex].owner = t->id;
    t->st = RUNNABLE; t->deadline = -1;
    int me = my_id;
    current = pick;
    if (pick == me) return;
    stats["context_switches"]++;
    // after the wake the chosen thread runs for real: from here on this thread may only touch its own record
    // (the thread table itself can be reallocated by a pthread_create of the thread that now runs)
    Th *self = me >= 0 ? ths[me] : nullptr;
    futex_wake(&t->go);
    if (self && self->st != DONE) futex_wait(&self->go);
    return;
  }
}
static void yield_point() { if (sim_on && my_id >= 0) schedule(); }

// ------------------------------------------------------------------ pthread interposition
struct Start { Th *t; };
static void *trampoline(void *p) {
  Th *t = (Th *)p;
  my_id = t->id;
  futex_wait(&t->go);
  TS_ACQ(t);
  t->ret = t->fn(t->arg);
  TS_REL(t);
  t->st = DONE;
  ev("thread_exit");
  schedule();          // never returns to us as runnable; falls through when the process ends
  return t->ret;
}
extern "C" int pthread_create(pthread_t *th, const pthread_attr_t *attr, void *(*fn)(void *), void *arg) {
  resolve();
  if (!sim_on) return real_pthread_create(th, attr, fn, arg);
  Th *t = new Th; t->id = (int)ths.size(); t->fn = fn; t->arg = arg;
  ths.push_back(t);
  TS_REL(t);
  int r = real_pthread_create(&t->real, attr, trampoline, t);
  if (r) die("real pthread_create failed");
  *th = t->real;
  ev("thread_create T%d", t->id);
  yield_point();
  return 0;
}
static Th *by_real(pthread_t p) { for (Th *t : ths) if (t->id > 0 && pthread_equal(t->real, p)) return t; return nullptr; }
extern "C" int pthread_join(pthread_t th, void **ret) {
  resolve();
  if (!sim_on) return real_pthread_join(th, ret);
  Th *t = by_real(th);
  if (!t) return ESRCH;
  if (t->joined) { ev("double_join T%d", t->id); return EINVAL; }
  Th *me = ths[my_id];
  if (t->st != DONE) { me->st = B_JOIN; me->join_target = t->id; schedule(); }
  t->joined = true;
  TS_ACQ(t);
  if (ret) *ret = t->ret;
  return 0;
}
extern "C" int pthread_mutex_lock(pthread_mutex_t *m) {
  if (!sim_on || my_id < 0) return 0;
  yield_point();
  Mx &x = mxs[m];
  Th *me = ths[my_id];
  if (x.owner == -1) { x.owner = my_id; TS_ACQ(m); return 0; }
  if (x.owner == my_id) die("SELF-DEADLOCK relock of a non-recursive mutex");
  me->st = B_MUTEX; me->obj = m; stats["mutex_contended"]++;
  schedule();
  TS_ACQ(m);
  return 0;
}
extern "C" int pthread_mutex_trylock(pthread_mutex_t *m) {
  if (!sim_on || my_id < 0) return 0;
  yield_point();
  Mx &x = mxs[m];
  if (x.owner == -1) { x.owner = my_id; TS_ACQ(m); return 0; }
  return EBUSY;
}
extern "C" int pthread_mutex_unlock(pthread_mutex_t *m) {
  if (!sim_on || my_id < 0) return 0;
  Mx &x = mxs[m];
  if (x.owner != my_id) ev("unlock_not_owner");
  TS_REL(m);
  x.owner = -1;
  yield_point();
  return 0;
}
static int cond_wait_common(pthread_cond_t *c, pthread_mutex_t *m, int64_t deadline) {
  Th *me = ths[my_id];
  TS_REL(m);
  mxs[m].owner = -1;
  me->st = B_COND; me->obj = c; me->cond_mutex = m; me->signaled = false; me->timed_out = false; me->deadline = deadline;
  schedule();
  bool to = me->timed_out;
  me->timed_out = false; me->signaled = false;
  TS_ACQ(m);
  return to ? ETIMEDOUT : 0;
}
extern "C" int pthread_cond_wait(pthread_cond_t *c, pthread_mutex_t *m) {
  if (!sim_on || my_id < 0) return 0;
  return cond_wait_common(c, m, -1);
}
static int64_t ts_ns(const struct timespec *ts) { return (int64_t)ts->tv_sec * 1000000000LL + ts->tv_nsec; }
extern "C" int pthread_cond_timedwait(pthread_cond_t *c, pthread_mutex_t *m, const struct timespec *abst) {
  if (!sim_on || my_id < 0) return 0;
  return cond_wait_common(c, m, ts_ns(abst));
}
extern "C" int pthread_cond_clockwait(pthread_cond_t *c, pthread_mutex_t *m, clockid_t, const struct timespec *abst) {
  if (!sim_on || my_id < 0) return 0;
  return cond_wait_common(c, m, ts_ns(abst));
}
extern "C" int pthread_cond_signal(pthread_cond_t *c) {
  if (!sim_on || my_id < 0) return 0;
  std::vector<Th *> w;
  for (Th *t : ths) if (t->st == B_COND && t->obj == c && !t->signaled) w.push_back(t);
  if (!w.empty()) w[rnd() % w.size()]->signaled = true;
  yield_point();
  return 0;
}
extern "C" int pthread_cond_broadcast(pthread_cond_t *c) {
  if (!sim_on || my_id < 0) return 0;
  for (Th *t : ths) if (t->st == B_COND && t->obj == c) t->signaled = true;
  yield_point();
  return 0;
}
extern "C" int pthread_cond_destroy(pthread_cond_t *) { return 0; }
extern "C" int pthread_mutex_destroy(pthread_mutex_t *m) { if (sim_on) mxs.erase(m); return 0; }

// ------------------------------------------------------------------ clock / sleep
extern "C" int clock_gettime(clockid_t, struct timespec *ts) {
  if (!sim_on) { ts->tv_sec = 0; ts->tv_nsec = 0; return 0; }
  ts->tv_sec = vns / 1000000000LL; ts->tv_nsec = vns % 1000000000LL; return 0;
}
static int do_sleep(int64_t ns) {
  if (!sim_on || my_id < 0) return 0;
  Th *me = ths[my_id];
  me->st = B_SLEEP; me->deadline = vns + ns;
  schedule();
  me->timed_out = false;
  return 0;
}
extern "C" int nanosleep(const struct timespec *req, struct timespec *) { return do_sleep(ts_ns(req)); }
extern "C" int clock_nanosleep(clockid_t, int flags, const struct timespec *req, struct timespec *) {
  int64_t ns = ts_ns(req); if (flags & TIMER_ABSTIME) ns -= vns; if (ns < 0) ns = 0; return do_sleep(ns);
}
extern "C" int usleep(useconds_t us) { return do_sleep((int64_t)us * 1000); }

// ------------------------------------------------------------------ eventfd / epoll / stdin
static const int FD_EVENT = 900, FD_EPOLL = 901, FD_SOCK = 902;
static uint64_t efd_counter = 0;
// one more descriptor in the set: a "socket" that an operation makes readable and that stays readable until it is read
// (level-triggered); what the code under test registered for it comes back in its events
static bool sock_registered = false, sock_ready = false; static epoll_data_t sock_data;
static bool sock_readable() { return sock_registered && sock_ready; }
static std::deque<std::string> stdin_chunks; static bool stdin_eof = false;
static bool eventfd_readable() { return efd_counter != 0; }
static bool stdin_readable() { return !stdin_chunks.empty() || stdin_eof; }
extern "C" int eventfd(unsigned int init, int) { efd_counter = init; return FD_EVENT; }
extern "C" int epoll_create1(int) { return FD_EPOLL; }
extern "C" int epoll_ctl(int, int op, int fd, struct epoll_event *e) {
  if (fd == FD_SOCK) { if (op == EPOLL_CTL_DEL) sock_registered = false; else if (e) { sock_registered = true; sock_data = e->data; } }
  return 0;
}
extern "C" int epoll_wait(int, struct epoll_event *out, int maxev, int timeout_ms) {
  if (!sim_on) return 0;
  yield_point();
  Th *me = ths[my_id];
  if (!efd_counter && !sock_readable()) {
    if (timeout_ms == 0) return 0;
    me->st = B_EPOLL; me->deadline = timeout_ms < 0 ? -1 : vns + (int64_t)timeout_ms * 1000000LL;
    schedule();
    bool to = me->timed_out; me->timed_out = false;
    if (to && !efd_counter && !sock_readable()) return 0;
  }
  if (maxev < 1) return 0;
  // the order in which ready descriptors are reported is the kernel's business: decided by the schedule's generator
  int n = 0; bool sock_first = sock_readable() && efd_counter && (rnd() & 1);
  for (int pass = 0; pass < 2 && n < maxev; pass++) {
    bool want_sock = (pass == 0) == sock_first;
    if (want_sock && sock_readable()) { memset(&out[n], 0, sizeof out[n]); out[n].events = EPOLLIN; out[n].data = sock_data; n++; }
    else if (!want_sock && efd_counter) { memset(&out[n], 0, sizeof out[n]); out[n].events = EPOLLIN; out[n].data.fd = FD_EVENT; n++; }
  }
  return n;
}
extern "C" ssize_t read(int fd, void *buf, size_t n) {
  resolve();
  if (sim_on && fd == FD_EVENT) {
    yield_point();
    if (!efd_counter) { errno = EAGAIN; return -1; }
    uint64_t v = efd_counter; efd_counter = 0; memcpy(buf, &v, 8);
    TS_ACQ(&efd_counter);
    return 8;
  }
  if (sim_on && fd == 0) {
    yield_point();
    if (!stdin_chunks.empty()) {
      std::string &s = stdin_chunks.front(); size_t k = s.size() < n ? s.size() : n;
      memcpy(buf, s.data(), k);
      if (k == s.size()) stdin_chunks.pop_front(); else s.erase(0, k);
      return (ssize_t)k;
    }
    if (stdin_eof) return 0;
    errno = EAGAIN; return -1;
  }
  return real_read(fd, buf, n);
}
extern "C" ssize_t write(int fd, const void *buf, size_t n) {
  resolve();
  if (sim_on && fd == FD_EVENT) {
    yield_point();
    uint64_t v; memcpy(&v, buf, 8);
    if (efd_counter) stats["eventfd_write_onto_nonzero"]++;
    TS_REL(&efd_counter);
    efd_counter += v;
    yield_point();
    return 8;
  }
  return real_write(fd, buf, n);
}
extern "C" int close(int fd) { resolve(); if (fd == FD_EVENT || fd == FD_EPOLL) return 0; return real_close(fd); }
extern "C" int select(int nfds, fd_set *r, fd_set *, fd_set *, struct timeval *tv) {
  if (!sim_on || my_id < 0) return 0;
  yield_point();
  Th *me = ths[my_id];
  if (!stdin_readable()) {
    int64_t ns = tv ? (int64_t)tv->tv_sec * 1000000000LL + (int64_t)tv->tv_usec * 1000 : -1;
    me->st = B_SELECT; me->deadline = ns < 0 ? -1 : vns + ns;
    schedule();
    bool to = me->timed_out; me->timed_out = false;
    if (to && !stdin_readable()) { if (r) FD_ZERO(r); return 0; }
  }
  (void)nfds;
  if (r) { FD_ZERO(r); FD_SET(0, r); }
  return 1;
}
extern "C" int isatty(int fd) { return fd == 0; }

// logger used by lib/async: keep it out of the picture
extern "C" int debug_message(const char *, ...) { return 0; }
extern "C" int debug_message_with_src(const char *, const char *, const char *, int, const char *, ...) { return 0; }
extern "C" int debug_perror_with_src(const char *, const char *, int, const char *, const char *) { return 0; }
int heart_beat_flag = 0;

// ------------------------------------------------------------------ scenario
struct Op { std::string name; std::vector<std::string> a; };
struct Prog { std::vector<Op> ops; };
static std::map<int, Prog> progs;          // scenario thread index -> program
static std::map<std::string, std::string> opts;
static async_runtime_t *rt; static async_queue_t *q; static async_worker_t *worker; static console_worker_context_t *cw;
static platform_timer_t timer; static long timer_cbs = 0;
static void timer_cb() { timer_cbs++; ev("timer_cb %ld", timer_cbs); }
static volatile int worker_iterations = 0;
static long optl(const char *k, long d);
static void *worker_proc(void *) {
  ev("worker_start");
  // with worker_exit_after=N the procedure returns on its own after N turns (a console worker at EOF does that), whether
  // or not anybody asked it to stop
  long lim = optl("worker_exit_after", -1);
  while (!async_worker_should_stop(async_worker_current()) && (lim < 0 || worker_iterations < lim)) { worker_iterations++; struct timespec ts = {0, 1000000}; nanosleep(&ts, NULL); }
  ev("worker_stopping");
  return NULL;
}
static long optl(const char *k, long d) { auto it = opts.find(k); return it == opts.end() ? d : atol(it->second.c_str()); }

static void run_prog(int idx) {
  Prog &p = progs[idx];
  for (Op &o : p.ops) {
    const std::string &n = o.name;
    if (n == "post") { int r = async_runtime_post_completion(rt, (uintptr_t)atol(o.a[0].c_str()), (uintptr_t)atol(o.a[1].c_str())); ev("post %s %s ret=%d", o.a[0].c_str(), o.a[1].c_str(), r); }
    else if (n == "sockadd") { int r = async_runtime_add(rt, FD_SOCK, EVENT_READ, (void *)&sock_data); ev("sockadd ret=%d", r); }
    else if (n == "ready") { yield_point(); sock_ready = true; ev("ready"); yield_point(); }
    else if (n == "wakeup") { int r = async_runtime_wakeup(rt); ev("wakeup ret=%d", r); }
    else if (n == "wait") {
      static io_event_t evs[16];       // (the backend's array is static as well: what a wait does not write stays from the wait before)
      struct timeval tv; long ms = atol(o.a[0].c_str()); int maxev = atoi(o.a[1].c_str());
      tv.tv_sec = ms / 1000; tv.tv_usec = (ms % 1000) * 1000;
      int64_t t0 = vns;
      ev("wait_call ms=%ld pending=%d", ms, efd_counter != 0);
      int r = async_runtime_wait(rt, evs, maxev > 16 ? 16 : maxev, ms < 0 ? NULL : &tv);
      std::string s;
      for (int i = 0; i < r; i++) {
        char b[96];
        if (evs[i].context == (void *)&sock_data) { snprintf(b, sizeof b, " io=%lu=%lu", (unsigned long)evs[i].completion_key, (unsigned long)evs[i].bytes_transferred); sock_ready = false; stats["io_events"]++; }
        else snprintf(b, sizeof b, " %lu:%lu", (unsigned long)evs[i].completion_key, (unsigned long)evs[i].bytes_transferred);
        s += b;
      }
      ev("wait ms=%ld ret=%d waited_ns=%lld%s", ms, r, (long long)(vns - t0), s.c_str());
    }
    else if (n == "sleep") { struct timespec ts; long us = atol(o.a[0].c_str()); ts.tv_sec = us / 1000000; ts.tv_nsec = (us % 1000000) * 1000; nanosleep(&ts, NULL); }
    else if (n == "enq") { bool r = async_queue_enqueue(q, o.a[0].c_str(), o.a[0].size() + 1); ev("enq %s ret=%d", o.a[0].c_str(), (int)r); }
    else if (n == "deq") { char b[256]; size_t sz = 0; bool r = async_queue_dequeue(q, b, sizeof b, &sz); ev("deq ret=%d %s", (int)r, r ? b : "-"); }
    else if (n == "drain") {   // drain <n>: dequeue until n messages have been received (the consumer keeps up with blocked writers)
      long want = atol(o.a[0].c_str()), have = 0;
      for (int tries = 0; have < want && tries < 20000; tries++) {
        char b[256]; size_t sz = 0;
        if (async_queue_dequeue(q, b, sizeof b, &sz)) { have++; ev("deq ret=1 %s", b); }
        else { struct timespec ts = {0, 100000}; nanosleep(&ts, NULL); }
      }
      ev("drain want=%ld have=%ld", want, have);
    }
    else if (n == "qclear") { async_queue_clear(q); ev("qclear"); }
    else if (n == "qstats") { async_queue_stats_t st; memset(&st, 0, sizeof st); async_queue_get_stats(q, &st); ev("qstats size=%zu enq=%llu deq=%llu drop=%llu", st.current_size, (unsigned long long)st.enqueue_count, (unsigned long long)st.dequeue_count, (unsigned long long)st.dropped_count); }
    else if (n == "wcreate") { worker = async_worker_create(worker_proc, NULL, 0); ev("wcreate %d", worker != NULL); }
    else if (n == "wstop") { async_worker_signal_stop(worker); ev("wstop"); }
    else if (n == "wjoin") { int64_t t0 = vns; bool r = async_worker_join(worker, atoi(o.a[0].c_str())); ev("wjoin ms=%s ret=%d took_ns=%lld state=%d iter=%d", o.a[0].c_str(), (int)r, (long long)(vns - t0), (int)async_worker_get_state(worker), worker_iterations); }
    else if (n == "wstate") { ev("wstate %d iter=%d", (int)async_worker_get_state(worker), worker_iterations); }
    else if (n == "wdestroy") { async_worker_destroy(worker); worker = NULL; ev("wdestroy"); }
    else if (n == "tinit") { ev("tinit %d", (int)platform_timer_init(&timer)); }
    else if (n == "tstart") { ev("tstart %d", (int)platform_timer_start(&timer, (unsigned long)atol(o.a[0].c_str()), timer_cb)); }
    else if (n == "tstop") { int r = (int)platform_timer_stop(&timer); ev("tstop %d cbs=%ld", r, timer_cbs); }
    else if (n == "tcleanup") { platform_timer_cleanup(&timer); ev("tcleanup cbs=%ld", timer_cbs); }
    else if (n == "tcount") { ev("tcount cbs=%ld active=%d", timer_cbs, platform_timer_is_active(&timer)); }
    else if (n == "cwinit") { cw = console_worker_init(rt, q, CONSOLE_COMPLETION_KEY); ev("cwinit %d", cw != NULL); }
    else if (n == "cwshutdown") { int64_t t0 = vns; bool r = console_worker_shutdown(cw, atoi(o.a[0].c_str())); ev("cwshutdown ret=%d took_ns=%lld", (int)r, (long long)(vns - t0)); }
    else if (n == "cwdestroy") { console_worker_destroy(cw); cw = NULL; ev("cwdestroy"); }
    else if (n == "stdin") { stdin_chunks.push_back(o.a[0] + "\n"); ev("stdin %s", o.a[0].c_str()); yield_point(); }
    else if (n == "stdin_eof") { stdin_eof = true; ev("stdin_eof"); yield_point(); }
    else if (n == "yield") { yield_point(); }
    else ev("badop %s", n.c_str());
  }
  ev("prog_done");
}
static void *prog_thread(void *arg) { run_prog((int)(intptr_t)arg); return NULL; }

static int run_scenario() {
  resolve();
  rng_state = (uint64_t)optl("sched_seed", 1) * 0x2545F4914F6CDD1DULL + 7;
  spurious_pct = optl("spurious_pct", 0);
  max_yields = optl("max_yields", 200000);
  Th *t0 = new Th; t0->id = 0; ths.push_back(t0); my_id = 0; current = 0;
  sim_on = true;
  rt = async_runtime_init();
  long cap = optl("queue_capacity", 0);
  if (cap > 0) q = async_queue_create((size_t)cap, 256, (async_queue_flags_t)optl("queue_flags", 0));
  // thread 0 runs program 0; programs 1..n run in their own threads
  std::vector<pthread_t> pts;
  for (auto &kv : progs) if (kv.first != 0) { pthread_t p; pthread_create(&p, NULL, prog_thread, (void *)(intptr_t)kv.first); pts.push_back(p); }
  run_prog(0);
  for (pthread_t p : pts) pthread_join(p, NULL);
  ev("all_joined vns=%lld", (long long)vns);
  std::string s; for (auto &kv : stats) s += " " + kv.first + "=" + std::to_string(kv.second);
  ev("STATS yields=%ld%s", yields, s.c_str());
  ev("END ok");
  flush_ev();
  return 0;
}

static char *planbuf; static size_t planlen;
static void parse() {
  size_t i = 0;
  while (i < planlen) {
    size_t j = i; while (j < planlen && planbuf[j] != '\n') j++;
    std::string line(planbuf + i, j - i); i = j + 1;
    std::vector<std::string> t; std::string cur;
    for (char c : line) { if (c == ' ') { if (!cur.empty()) { t.push_back(cur); cur.clear(); } } else cur += c; }
    if (!cur.empty()) t.push_back(cur);
    if (t.empty()) continue;
    if (t[0] == "opt" && t.size() >= 3) opts[t[1]] = t[2];
    else if (t[0] == "t" && t.size() >= 3) { Op o; o.name = t[2]; for (size_t k = 3; k < t.size(); k++) o.a.push_back(t[k]); progs[atoi(t[1].c_str())].ops.push_back(o); }
  }
  if (!progs.count(0)) progs[0] = Prog();
}
static bool read_plan() {
  planlen = 0; size_t ls = 0; static char rb[1 << 16]; static size_t rl = 0, rp = 0;
  for (;;) {
    if (rp == rl) { ssize_t n = real_read(0, rb, sizeof rb); if (n <= 0) return false; rl = n; rp = 0; }
    char c = rb[rp++]; planbuf[planlen++] = c;
    if (c == '\n') { if (planlen - ls == 2 && planbuf[ls] == '.') { planlen = ls; return true; } ls = planlen; }
  }
}
static void on_alarm(int) { static const char m[] = "E 0 0 T- HANG wallclock\n"; resolve(); flush_ev(); real_write(1, m, sizeof m - 1); _exit(76); }
extern "C" __attribute__((used)) const char *__asan_default_options() { return "detect_leaks=0:exitcode=77:halt_on_error=1"; }
extern "C" __attribute__((used)) const char *__tsan_default_options() { return "exitcode=66:halt_on_error=1:report_signal_unsafe=0:report_thread_leaks=0:ignore_interceptors_accesses=1:ignore_noninstrumented_modules=1"; }

int main(int argc, char **argv) {
  resolve();
  if (!getenv("NSIM_NOASLR")) {
    int pers = personality(0xffffffff);
    if (pers != -1 && !(pers & ADDR_NO_RANDOMIZE) && personality(pers | ADDR_NO_RANDOMIZE) != -1) { setenv("NSIM_NOASLR", "1", 1); execv("/proc/self/exe", argv); }
  }
  planbuf = (char *)mmap(NULL, 1 << 24, PROT_READ | PROT_WRITE, MAP_PRIVATE | MAP_ANONYMOUS | MAP_NORESERVE, -1, 0);
  if (argc >= 2 && !strcmp(argv[1], "serve")) {
    while (read_plan()) {
      if (getenv("TSIM_NOFORK")) { signal(SIGALRM, on_alarm); alarm(80); parse(); int rc = run_scenario(); char l2[64]; snprintf(l2, sizeof l2, "X exit %d\n.\n", rc); real_write(1, l2, strlen(l2)); _exit(0); }
      char errpath[128]; snprintf(errpath, sizeof errpath, "%s/tsim-err-%08d", getenv("NSIM_TMP") ? getenv("NSIM_TMP") : "/tmp", (int)getpid());
      pid_t pid = fork();
      if (pid == 0) {
        int efd = open(errpath, O_WRONLY | O_CREAT | O_TRUNC, 0644); if (efd >= 0) { dup2(efd, 2); real_close(efd); }
        signal(SIGALRM, on_alarm); alarm(80); parse(); _exit(run_scenario());
      }
      int status = 0; while (waitpid(pid, &status, 0) < 0 && errno == EINTR) {}
      char line[64];
      if (WIFSIGNALED(status)) snprintf(line, sizeof line, "X signal %d\n", WTERMSIG(status)); else snprintf(line, sizeof line, "X exit %d\n", WEXITSTATUS(status));
      real_write(1, line, strlen(line));
      if (!(WIFEXITED(status) && WEXITSTATUS(status) == 0)) {
        static char eb[8192]; int fd = open(errpath, O_RDONLY); ssize_t n = fd >= 0 ? real_read(fd, eb, sizeof eb - 1) : 0; if (fd >= 0) real_close(fd);
        if (n > 0) {
          static const char *hx = "0123456789ABCDEF"; static char out[3 * 8192 + 16]; size_t o = 0; memcpy(out, "STDERR ", 7); o = 7;
          for (ssize_t i = 0; i < n; i++) { unsigned char c = (unsigned char)eb[i]; if (c > 0x20 && c < 0x7f && c != '%') out[o++] = (char)c; else { out[o++] = '%'; out[o++] = hx[c >> 4]; out[o++] = hx[c & 15]; } }
          out[o++] = '\n'; real_write(1, out, o);
        }
      }
      unlink(errpath);
      real_write(1, ".\n", 2);
    }
    return 0;
  }
  fprintf(stderr, "usage: tsim serve\n");
  return 2;
}
